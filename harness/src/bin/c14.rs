//! C14 engine: random schemas (text / keyword / i64 / f64 leaves with random stored / indexed /
//! fast flags, nested objects to three levels, sometimes a vector field), random histories of
//! adds (upserts), deletes, commits and reopens ending in `Index::compact`, random filters
//! (generator of c08) and random queries (term, phrase with slop, prefix, bool, vector).
//! Observation: what a reader sees before and after the call — live ids with their stored fields
//! (exact JSON), hit ids of every filter and query, segment and tombstone counts — the result of
//! the call, and whether the directory (names and bytes) is the one before the call.
//! The Coq side (C14.Model.check_case) compares the whole observation with the model (stored
//! form of every source document, filter hits through C08's flatten/passes, compact's outcome) and
//! evaluates the property's specification on it.
use searchlite_core::api::types::{Document, Filter, IndexOptions, StorageType};
use searchlite_core::api::IndexBuilder;
use searchlite_core::Index;
use serde_json::{json, Map, Value};
use slv::{coq, parse_args, write_json, Rng};
use std::collections::BTreeMap;

// ---------------------------------------------------------------- schema
#[derive(Clone, Copy, PartialEq, Debug)]
enum Kind {
  Text,
  Kw,
  I64,
  F64,
  /// a vector field (dim 2, top level only): never stored, used by vector queries
  Vector,
}

#[derive(Clone, Debug)]
enum Prop {
  Leaf { name: String, kind: Kind, nullable: bool, stored: bool, indexed: bool, fast: bool },
  Obj { name: String, nullable: bool, fields: Vec<Prop> },
}

impl Prop {
  fn name(&self) -> &str {
    match self {
      Prop::Leaf { name, .. } | Prop::Obj { name, .. } => name,
    }
  }
}

const T_NAMES: [&str; 2] = ["t", "u"];
const KW_NAMES: [&str; 3] = ["a", "b", "k"];
const I_NAMES: [&str; 2] = ["n", "m"];
const F_NAMES: [&str; 2] = ["x", "y"];
const O_NAMES: [&str; 3] = ["c", "r", "s"];

/// `safe`: flags are drawn so that ensure_compact_safe accepts the schema
fn gen_leaf_prop(rng: &mut Rng, name: &str, kind: Kind, inner: bool, safe: bool) -> Prop {
  let nullable = rng.chance(1, 2);
  let (mut indexed, mut fast) = match kind {
    Kind::Text => (rng.chance(3, 4), false),
    Kind::Kw => (rng.chance(3, 4), rng.chance(3, 4)),
    _ => (true, rng.chance(3, 4)),
  };
  let mut stored = rng.chance(3, 4);
  if safe {
    let numeric = matches!(kind, Kind::I64 | Kind::F64);
    if (indexed || fast || (inner && !nullable)) && !stored {
      // either store it or (text / keyword only) make it a pure pass-through field
      if numeric || rng.chance(2, 3) {
        stored = true;
      } else {
        indexed = false;
        fast = false;
        if inner && !nullable {
          stored = true;
        }
      }
    }
  }
  Prop::Leaf { name: name.into(), kind, nullable, stored, indexed, fast }
}

fn gen_props(rng: &mut Rng, depth: usize, safe: bool) -> Vec<Prop> {
  let inner = depth > 0;
  let mut out = Vec::new();
  let nt = if depth == 0 { 1 + rng.below(2) } else { rng.below(2) } as usize;
  let mut ts: Vec<&str> = T_NAMES.to_vec();
  for _ in 0..nt {
    let i = rng.below(ts.len() as u64) as usize;
    out.push(gen_leaf_prop(rng, ts.remove(i), Kind::Text, inner, safe));
  }
  let nkw = 1 + rng.below(2) as usize;
  let mut kws: Vec<&str> = KW_NAMES.to_vec();
  for _ in 0..nkw {
    let i = rng.below(kws.len() as u64) as usize;
    out.push(gen_leaf_prop(rng, kws.remove(i), Kind::Kw, inner, safe));
  }
  if rng.chance(2, 3) {
    let nm = *rng.pick(&I_NAMES);
    out.push(gen_leaf_prop(rng, nm, Kind::I64, inner, safe));
  }
  if rng.chance(1, 2) {
    let nm = *rng.pick(&F_NAMES);
    out.push(gen_leaf_prop(rng, nm, Kind::F64, inner, safe));
  }
  if depth < 3 {
    let nobj = match depth {
      0 => 1 + rng.below(2),
      1 => rng.below(3),
      _ => rng.below(2),
    } as usize;
    let mut os: Vec<&str> = O_NAMES.to_vec();
    for _ in 0..nobj {
      let i = rng.below(os.len() as u64) as usize;
      out.push(Prop::Obj { name: os.remove(i).into(), nullable: rng.chance(1, 2), fields: gen_props(rng, depth + 1, safe) });
    }
  }
  for i in (1..out.len()).rev() {
    let j = rng.below(i as u64 + 1) as usize;
    out.swap(i, j);
  }
  out
}

fn nested_prop_json(p: &Prop) -> Value {
  match p {
    Prop::Leaf { name, kind, nullable, stored, indexed, fast } => match kind {
      Kind::Text => json!({"type":"text","name":name,"analyzer":"default","stored":stored,"indexed":indexed,"nullable":nullable}),
      Kind::Kw => json!({"type":"keyword","name":name,"stored":stored,"indexed":indexed,"fast":fast,"nullable":nullable}),
      Kind::I64 | Kind::F64 => json!({"type":"numeric","name":name,"i64": *kind == Kind::I64,"fast":fast,"stored":stored,"nullable":nullable}),
      Kind::Vector => unreachable!("vector fields are top level"),
    },
    Prop::Obj { name, nullable, fields } => {
      json!({"type":"object","name":name,"nullable":nullable,"fields": fields.iter().map(nested_prop_json).collect::<Vec<_>>()})
    }
  }
}

fn real_schema(props: &[Prop]) -> searchlite_core::Schema {
  let (mut tf, mut kf, mut nf, mut of, mut vf) = (vec![], vec![], vec![], vec![], vec![]);
  for p in props {
    match p {
      Prop::Leaf { name, kind, nullable, stored, indexed, fast } => match kind {
        Kind::Text => tf.push(json!({"name":name,"analyzer":"default","stored":stored,"indexed":indexed,"nullable":nullable})),
        Kind::Kw => kf.push(json!({"name":name,"stored":stored,"indexed":indexed,"fast":fast,"nullable":nullable})),
        Kind::I64 | Kind::F64 => nf.push(json!({"name":name,"i64": *kind == Kind::I64,"fast":fast,"stored":stored,"nullable":nullable})),
        Kind::Vector => vf.push(json!({"name":name,"dim":2,"metric":"Cosine"})),
      },
      Prop::Obj { name, nullable, fields } => {
        of.push(json!({"name":name,"nullable":nullable,"fields": fields.iter().map(nested_prop_json).collect::<Vec<_>>()}))
      }
    }
  }
  serde_json::from_value(json!({
    "doc_id_field": "_id", "text_fields": tf, "keyword_fields": kf, "numeric_fields": nf,
    "nested_fields": of, "vector_fields": vf
  }))
  .expect("schema")
}

// ---------------------------------------------------------------- values
const WORDS: [&str; 5] = ["rust", "fast", "index", "wal", "heap"];
const STRS: [&str; 10] = ["alice", "Alice", "bob", "BoB", "p", "P", "q", "Ünï", "ünï", "straße"];
const INTS: [i64; 5] = [-3, 0, 5, i64::MAX, i64::MIN];

fn gen_text(rng: &mut Rng) -> Value {
  match rng.below(8) {
    0 => json!(""),
    1 => json!("the"),
    _ => {
      let n = 1 + rng.below(3);
      let ws: Vec<&str> = (0..n).map(|_| *rng.pick(&WORDS)).collect();
      json!(ws.join(" "))
    }
  }
}
fn gen_flt(rng: &mut Rng) -> Value {
  match rng.below(8) {
    0 => json!(-0.0),
    1 => json!(0.0),
    2 => json!(1),
    3 => json!(1e300),
    4 => json!(u64::MAX),
    _ => json!((rng.range(-6, 12) as f64) * 0.5),
  }
}
fn gen_scalar(rng: &mut Rng, kind: Kind) -> Value {
  match kind {
    Kind::Text => gen_text(rng),
    Kind::Kw => Value::String(rng.pick(&STRS).to_string()),
    Kind::I64 => {
      if rng.chance(1, 12) {
        json!(*rng.pick(&INTS))
      } else {
        json!(rng.range(-3, 6))
      }
    }
    Kind::F64 => gen_flt(rng),
    Kind::Vector => unreachable!(),
  }
}

#[derive(Default)]
struct Stats {
  empty_objects: usize,
  null_entries: usize,
  null_props: usize,
  single_objects: usize,
  empty_arrays: usize,
  multi_valued: usize,
  empty_strings_in_multi_text: usize,
  one_element_arrays: usize,
  f64_given_as_integer: usize,
}

fn gen_leaf(rng: &mut Rng, kind: Kind, nullable: bool, top: bool, st: &mut Stats) -> Option<Value> {
  if kind == Kind::Vector {
    return match rng.below(5) {
      0 => None,
      1 => Some(Value::Null),
      _ => Some(json!([rng.range(-2, 2) as f64 + 0.5, rng.range(-2, 2) as f64 + 0.25])),
    };
  }
  match rng.below(10) {
    0 if nullable || top => None,
    1 if nullable => {
      st.null_props += 1;
      Some(Value::Null)
    }
    2 | 3 | 4 => {
      let n = rng.below(4) as usize;
      let v: Vec<Value> = (0..n).map(|_| gen_scalar(rng, kind)).collect();
      if v.len() > 1 {
        st.multi_valued += 1;
        if kind == Kind::Text && v.iter().any(|x| x == "" || x == "the") {
          st.empty_strings_in_multi_text += 1;
        }
      }
      if v.len() == 1 {
        st.one_element_arrays += 1;
      }
      if v.is_empty() {
        st.empty_arrays += 1;
      }
      Some(Value::Array(v))
    }
    _ => {
      let v = gen_scalar(rng, kind);
      if kind == Kind::F64 && v.as_i64().is_some() {
        st.f64_given_as_integer += 1;
      }
      Some(v)
    }
  }
}

fn gen_obj(rng: &mut Rng, fields: &[Prop], depth: usize, st: &mut Stats) -> Value {
  let mut m = Map::new();
  // now and then an object with as few properties as validation allows (often empty)
  let sparse = rng.chance(1, 3);
  for p in fields {
    match p {
      Prop::Leaf { name, kind, nullable, .. } => {
        if sparse && *nullable {
          continue;
        }
        if let Some(v) = gen_leaf(rng, *kind, *nullable, false, st) {
          m.insert(name.clone(), v);
        }
      }
      Prop::Obj { name, nullable, fields } => {
        if sparse && *nullable {
          continue;
        }
        if let Some(v) = gen_nested(rng, fields, *nullable, false, depth + 1, st) {
          m.insert(name.clone(), v);
        }
      }
    }
  }
  if m.is_empty() {
    st.empty_objects += 1;
  }
  Value::Object(m)
}

fn gen_nested(rng: &mut Rng, fields: &[Prop], nullable: bool, top: bool, depth: usize, st: &mut Stats) -> Option<Value> {
  match rng.below(12) {
    0 if nullable || top => None,
    1 if nullable => {
      st.null_props += 1;
      Some(Value::Null)
    }
    2 => {
      st.single_objects += 1;
      Some(gen_obj(rng, fields, depth, st))
    }
    _ => {
      let n = match rng.below(8) {
        0 => 0,
        1 | 2 => 1,
        3 | 4 | 5 => 2,
        _ => 3,
      };
      if n == 0 {
        st.empty_arrays += 1;
      }
      let mut v = Vec::new();
      for _ in 0..n {
        if nullable && rng.chance(1, 8) {
          st.null_entries += 1;
          v.push(Value::Null);
        } else {
          v.push(gen_obj(rng, fields, depth, st));
        }
      }
      Some(Value::Array(v))
    }
  }
}

fn gen_doc(rng: &mut Rng, props: &[Prop], st: &mut Stats) -> BTreeMap<String, Value> {
  let mut m = BTreeMap::new();
  for p in props {
    match p {
      Prop::Leaf { name, kind, nullable, .. } => {
        if let Some(v) = gen_leaf(rng, *kind, *nullable, true, st) {
          m.insert(name.clone(), v);
        }
      }
      Prop::Obj { name, nullable, fields } => {
        if let Some(v) = gen_nested(rng, fields, *nullable, true, 1, st) {
          m.insert(name.clone(), v);
        }
      }
    }
  }
  m
}

// ---------------------------------------------------------------- filters (generator of c08, over the fast leaves)
#[derive(Default)]
struct FStats {
  nested: usize,
  not: usize,
  ill_typed: usize,
}

fn gen_filter(rng: &mut Rng, props: &[Prop], depth: usize, fst: &mut FStats, ill: &mut bool) -> Filter {
  let objs: Vec<&Prop> = props.iter().filter(|p| matches!(p, Prop::Obj { .. })).collect();
  let leaves: Vec<&Prop> = props
    .iter()
    .filter(|p| matches!(p, Prop::Leaf { fast: true, kind: Kind::Kw | Kind::I64 | Kind::F64, .. }))
    .collect();
  let choice = if depth >= 4 { rng.below(5) } else { rng.below(12) };
  match choice {
    0..=4 => {
      let bad = rng.chance(1, 40);
      let (name, kind) = if bad || leaves.is_empty() {
        *ill = true;
        let k = *rng.pick(&[Kind::Kw, Kind::I64, Kind::F64]);
        let nm = match rng.below(3) {
          0 => "zz".to_string(),
          _ => props[rng.below(props.len() as u64) as usize].name().to_string(),
        };
        (nm, k)
      } else {
        match rng.pick(&leaves) {
          Prop::Leaf { name, kind, .. } => (name.clone(), *kind),
          _ => unreachable!(),
        }
      };
      match kind {
        Kind::Kw => {
          if rng.chance(1, 2) {
            Filter::KeywordEq { field: name, value: rng.pick(&STRS).to_string() }
          } else {
            let n = rng.below(4) as usize;
            Filter::KeywordIn { field: name, values: (0..n).map(|_| rng.pick(&STRS).to_string()).collect() }
          }
        }
        Kind::I64 => {
          let a = if rng.chance(1, 10) { *rng.pick(&INTS) } else { rng.range(-3, 6) };
          let b = if rng.chance(1, 10) { *rng.pick(&INTS) } else { a.saturating_add(rng.range(-1, 3)) };
          Filter::I64Range { field: name, min: a, max: b }
        }
        _ => {
          let pick = |rng: &mut Rng| match rng.below(10) {
            0 => f64::NEG_INFINITY,
            1 => f64::INFINITY,
            2 => -0.0,
            3 => 1e300,
            _ => (rng.range(-6, 12) as f64) * 0.5,
          };
          let a = pick(rng);
          let b = if rng.chance(1, 3) { a } else { pick(rng) };
          Filter::F64Range { field: name, min: a, max: b }
        }
      }
    }
    5 | 6 | 7 if !objs.is_empty() => {
      let (path, fields) = match rng.pick(&objs) {
        Prop::Obj { name, fields, .. } => (name.clone(), fields.clone()),
        _ => unreachable!(),
      };
      fst.nested += 1;
      Filter::Nested { path, filter: Box::new(gen_filter(rng, &fields, depth + 1, fst, ill)) }
    }
    8 | 9 => {
      let n = rng.below(4) as usize;
      let mut v = Vec::new();
      if !objs.is_empty() && rng.chance(2, 3) {
        if let Prop::Obj { name, fields, .. } = rng.pick(&objs) {
          let k = 1 + rng.below(2) as usize;
          for _ in 0..k {
            fst.nested += 1;
            v.push(Filter::Nested { path: name.clone(), filter: Box::new(gen_filter(rng, fields, depth + 2, fst, ill)) });
          }
        }
      }
      for _ in 0..n {
        v.push(gen_filter(rng, props, depth + 1, fst, ill));
      }
      for i in (1..v.len()).rev() {
        let j = rng.below(i as u64 + 1) as usize;
        v.swap(i, j);
      }
      Filter::And(v)
    }
    10 => {
      let n = rng.below(4) as usize;
      Filter::Or((0..n).map(|_| gen_filter(rng, props, depth + 1, fst, ill)).collect())
    }
    _ => {
      fst.not += 1;
      Filter::Not(Box::new(gen_filter(rng, props, depth + 1, fst, ill)))
    }
  }
}

// ---------------------------------------------------------------- queries
/// (dotted path, kind) of every indexed text / keyword leaf
fn query_fields(props: &[Prop], prefix: &str, out: &mut Vec<(String, Kind)>) {
  for p in props {
    match p {
      Prop::Leaf { name, kind: kind @ (Kind::Text | Kind::Kw), indexed: true, .. } => {
        out.push((format!("{prefix}{name}"), *kind))
      }
      Prop::Obj { name, fields, .. } => query_fields(fields, &format!("{prefix}{name}."), out),
      _ => {}
    }
  }
}

#[derive(Default)]
struct QStats {
  term: usize,
  phrase: usize,
  phrase_with_slop: usize,
  prefix: usize,
  boolean: usize,
  vector: usize,
  on_nested_field: usize,
}

fn gen_leaf_query(rng: &mut Rng, fields: &[(String, Kind)], used: &mut Vec<String>, qs: &mut QStats) -> Option<Value> {
  if fields.is_empty() {
    return None;
  }
  let (f, kind) = rng.pick(fields).clone();
  if f.contains('.') {
    qs.on_nested_field += 1;
  }
  // a term key scored under two leaves of one query trips a debug assertion (C16 known finding)
  let fresh = |rng: &mut Rng, used: &mut Vec<String>, pool: &[&str]| -> Option<String> {
    for _ in 0..6 {
      let w = rng.pick(pool).to_string();
      let key = format!("{f}:{}", w.to_lowercase());
      if !used.contains(&key) {
        used.push(key);
        return Some(w);
      }
    }
    None
  };
  match kind {
    Kind::Kw => {
      qs.term += 1;
      let v = fresh(rng, used, &STRS)?;
      Some(json!({"type":"term","field":f,"value":v}))
    }
    _ => match rng.below(6) {
      0 | 1 => {
        qs.term += 1;
        let w = fresh(rng, used, &WORDS)?;
        Some(json!({"type":"term","field":f,"value":w}))
      }
      2 => {
        qs.prefix += 1;
        let w = fresh(rng, used, &["r", "ru", "f", "in", "he", "w"])?;
        // expansions of the prefix are scored terms too
        if WORDS.iter().any(|x| x.starts_with(&w) && used.contains(&format!("{f}:{x}"))) {
          return None;
        }
        for x in WORDS.iter().filter(|x| x.starts_with(&w)) {
          used.push(format!("{f}:{x}"));
        }
        Some(json!({"type":"prefix","field":f,"value":w}))
      }
      _ => {
        qs.phrase += 1;
        let n = 2 + rng.below(2) as usize;
        let mut terms = Vec::new();
        for _ in 0..n {
          terms.push(fresh(rng, used, &WORDS)?);
        }
        let slop = rng.below(4);
        if slop > 0 {
          qs.phrase_with_slop += 1;
        }
        Some(json!({"type":"phrase","field":f,"terms":terms,"slop":slop}))
      }
    },
  }
}

fn gen_query(rng: &mut Rng, fields: &[(String, Kind)], qs: &mut QStats) -> Value {
  let mut used = Vec::new();
  if rng.chance(2, 3) {
    if let Some(q) = gen_leaf_query(rng, fields, &mut used, qs) {
      return q;
    }
  }
  qs.boolean += 1;
  let mut lists: Vec<Vec<Value>> = Vec::new();
  for k in 0..3 {
    let n = if k == 0 { rng.below(3) } else { rng.below(2) } as usize;
    lists.push((0..n).filter_map(|_| gen_leaf_query(rng, fields, &mut used, qs)).collect());
  }
  if lists[0].is_empty() && lists[1].is_empty() {
    lists[0].push(json!({"type":"match_all"}));
  }
  json!({"type":"bool","must":lists[0],"should":lists[1],"must_not":lists[2]})
}

// ---------------------------------------------------------------- Gallina printing
struct Intern {
  names: BTreeMap<String, u64>,
  strs: BTreeMap<String, u64>,
}

impl Intern {
  fn name(&mut self, s: &str) -> u64 {
    let n = self.names.len() as u64;
    *self.names.entry(s.to_string()).or_insert(n)
  }
  fn sid(&mut self, s: &str) -> u64 {
    let n = self.strs.len() as u64;
    *self.strs.entry(s.to_string()).or_insert(n)
  }
  fn str(&mut self, s: &str) -> String {
    let a = self.sid(s);
    let b = self.sid(&s.to_lowercase());
    format!("({a}, {b})")
  }
}

fn rank(fl: &[f64], x: f64) -> i64 {
  fl.iter().position(|y| *y == x).expect("ranked float") as i64
}

fn p_props(ps: &[Prop], it: &mut Intern) -> String {
  let v: Vec<String> = ps
    .iter()
    .map(|p| match p {
      Prop::Leaf { name, kind, nullable, stored, indexed, fast } => {
        if *kind == Kind::Vector {
          // a field whose data is used by queries and is never stored
          return format!("XLeaf {} XF64 true false false true", it.name(name));
        }
        format!(
          "XLeaf {} {} {} {} {} {}",
          it.name(name),
          match kind {
            Kind::Text => "XText",
            Kind::Kw => "XKw",
            Kind::I64 => "XI64",
            _ => "XF64",
          },
          coq::b(*nullable),
          coq::b(*stored),
          coq::b(*indexed),
          coq::b(*fast)
        )
      }
      Prop::Obj { name, nullable, fields } => {
        format!("XObj {} {} {}", it.name(name), coq::b(*nullable), p_props(fields, it))
      }
    })
    .collect();
  coq::list(&v)
}

/// JSON value as a Gallina [jval]; the keys of an object in schema order (unknown keys last)
fn p_jval(v: &Value, level: Option<&[Prop]>, it: &mut Intern, fl: &[f64]) -> String {
  match v {
    Value::Null => "JNull".into(),
    Value::Bool(b) => format!("(JBool {})", coq::b(*b)),
    Value::String(s) => format!("(JStr {})", it.str(s)),
    Value::Number(n) => format!(
      "(JNum {} {})",
      coq::opt(n.as_i64().map(coq::z)),
      coq::z(rank(fl, n.as_f64().expect("as_f64")))
    ),
    Value::Array(a) => {
      let xs: Vec<String> = a.iter().map(|x| p_jval(x, level, it, fl)).collect();
      format!("(JArr {})", coq::list(&xs))
    }
    Value::Object(m) => format!("(JObj {})", p_obj(m, level, it, fl)),
  }
}

fn p_obj(m: &Map<String, Value>, level: Option<&[Prop]>, it: &mut Intern, fl: &[f64]) -> String {
  let mut keys: Vec<&String> = m.keys().collect();
  let pos = |k: &String| level.and_then(|ps| ps.iter().position(|p| p.name() == k)).unwrap_or(usize::MAX);
  keys.sort_by_key(|k| (pos(k), (*k).clone()));
  let xs: Vec<String> = keys
    .iter()
    .map(|k| {
      let sub: Option<&[Prop]> = level.and_then(|ps| {
        ps.iter().find_map(|p| match p {
          Prop::Obj { name, fields, .. } if name == *k => Some(fields.as_slice()),
          _ => None,
        })
      });
      format!("({}, {})", it.name(k), p_jval(&m[*k], sub, it, fl))
    })
    .collect();
  coq::list(&xs)
}

fn p_filter(f: &Filter, it: &mut Intern, fl: &[f64]) -> String {
  match f {
    Filter::KeywordEq { field, value } => format!("(FKwEq {} {})", it.name(field), it.str(value)),
    Filter::KeywordIn { field, values } => {
      let xs: Vec<String> = values.iter().map(|v| it.str(v)).collect();
      format!("(FKwIn {} {})", it.name(field), coq::list(&xs))
    }
    Filter::I64Range { field, min, max } => format!("(FI64 {} {} {})", it.name(field), coq::z(*min), coq::z(*max)),
    Filter::F64Range { field, min, max } => {
      format!("(FF64 {} {} {})", it.name(field), coq::z(rank(fl, *min)), coq::z(rank(fl, *max)))
    }
    Filter::Nested { path, filter } => format!("(FNested {} {})", it.name(path), p_filter(filter, it, fl)),
    Filter::And(v) => {
      let xs: Vec<String> = v.iter().map(|x| p_filter(x, it, fl)).collect();
      format!("(FAnd {})", coq::list(&xs))
    }
    Filter::Or(v) => {
      let xs: Vec<String> = v.iter().map(|x| p_filter(x, it, fl)).collect();
      format!("(FOr {})", coq::list(&xs))
    }
    Filter::Not(g) => format!("(FNot {})", p_filter(g, it, fl)),
  }
}

fn floats_in(v: &Value, out: &mut Vec<f64>) {
  match v {
    Value::Number(n) => out.push(n.as_f64().expect("as_f64")),
    Value::Array(a) => a.iter().for_each(|x| floats_in(x, out)),
    Value::Object(m) => m.values().for_each(|x| floats_in(x, out)),
    _ => {}
  }
}
fn floats_in_filter(f: &Filter, out: &mut Vec<f64>) {
  match f {
    Filter::F64Range { min, max, .. } => {
      out.push(*min);
      out.push(*max)
    }
    Filter::Nested { filter, .. } => floats_in_filter(filter, out),
    Filter::Not(g) => floats_in_filter(g, out),
    Filter::And(v) | Filter::Or(v) => v.iter().for_each(|x| floats_in_filter(x, out)),
    _ => {}
  }
}

// ---------------------------------------------------------------- observation
const ERR_HIT: u64 = 4294967295;

fn parse_id(s: &str) -> u64 {
  s.trim_start_matches('d').parse().expect("doc id")
}

struct View {
  stored: Vec<(u64, Value)>,
  fhits: Vec<Vec<u64>>,
  qhits: Vec<Vec<u64>>,
  segs: usize,
  tombs: usize,
}

fn hits(reader: &searchlite_core::api::reader::IndexReader, req: Value, filter: Option<&Filter>, errors: &mut usize) -> Vec<u64> {
  let mut request = slv::qx::request(req);
  // (infinite range bounds have no JSON form)
  request.filter = filter.cloned();
  match slv::qx::search(reader, &request) {
    Ok(res) => {
      let mut ids: Vec<u64> = res.hits.iter().map(|h| parse_id(&h.doc_id)).collect();
      ids.sort();
      ids
    }
    Err(e) => {
      *errors += 1;
      if *errors <= 3 {
        eprintln!("query error: {e}");
      }
      vec![ERR_HIT]
    }
  }
}

fn view(idx: &Index, filters: &[Filter], queries: &[Value], errors: &mut usize) -> View {
  let reader = idx.reader().expect("reader");
  let res = reader
    .search(&slv::qx::request(json!({"query":{"type":"match_all"},"limit":100000,"return_stored":true})))
    .expect("match_all");
  let mut stored: Vec<(u64, Value)> = res
    .hits
    .iter()
    .map(|h| {
      let mut f = h.fields.clone().unwrap_or(Value::Null);
      if let Some(m) = f.as_object_mut() {
        // the id is compared through the hit's doc_id
        if m.get("_id").and_then(|v| v.as_str()) == Some(h.doc_id.as_str()) {
          m.remove("_id");
        }
      }
      (parse_id(&h.doc_id), f)
    })
    .collect();
  stored.sort_by_key(|x| x.0);
  let fhits = filters
    .iter()
    .map(|f| hits(&reader, json!({"query":{"type":"match_all"},"limit":100000}), Some(f), errors))
    .collect();
  let qhits = queries
    .iter()
    .map(|q| {
      let mut req = json!({"limit":100000});
      if q.get("vector_query").is_some() {
        req["query"] = json!({"type":"match_all"});
        req["vector_query"] = q["vector_query"].clone();
      } else {
        req["query"] = q.clone();
      }
      hits(&reader, req, None, errors)
    })
    .collect();
  let man = idx.manifest();
  View {
    stored,
    fhits,
    qhits,
    segs: man.segments.len(),
    tombs: man.segments.iter().map(|s| s.deleted_docs.len()).sum(),
  }
}

fn listing(p: &std::path::Path) -> Vec<(String, Vec<u8>)> {
  let mut v: Vec<(String, Vec<u8>)> = Vec::new();
  fn walk(base: &std::path::Path, p: &std::path::Path, v: &mut Vec<(String, Vec<u8>)>) {
    for e in std::fs::read_dir(p).expect("read_dir") {
      let e = e.expect("entry");
      let path = e.path();
      if path.is_dir() {
        walk(base, &path, v);
      } else {
        let rel = path.strip_prefix(base).unwrap().to_string_lossy().to_string();
        v.push((rel, std::fs::read(&path).unwrap_or_default()));
      }
    }
  }
  walk(p, p, &mut v);
  v.sort();
  v
}

fn p_view(v: &View, props: &[Prop], it: &mut Intern, fl: &[f64]) -> String {
  let st: Vec<String> = v
    .stored
    .iter()
    .map(|(id, f)| match f {
      Value::Object(m) => format!("({id}, {})", p_obj(m, Some(props), it, fl)),
      other => format!("({id}, [(4294967295, {})])", p_jval(other, None, it, fl)),
    })
    .collect();
  let fh: Vec<String> = v.fhits.iter().map(|h| coq::nlist(h)).collect();
  let qh: Vec<String> = v.qhits.iter().map(|h| coq::nlist(h)).collect();
  format!("(mkview {} {} {} {} {})", coq::list(&st), coq::list(&fh), coq::list(&qh), v.segs, v.tombs)
}

fn view_json(v: &View) -> Value {
  json!({"stored": v.stored.iter().map(|(i, f)| json!([i, f])).collect::<Vec<_>>(), "filter_hits": v.fhits,
         "query_hits": v.qhits, "segments": v.segs, "tombstones": v.tombs})
}

fn opts(path: &std::path::Path) -> IndexOptions {
  slv::fixtures::opts(path, StorageType::Filesystem)
}

// ---------------------------------------------------------------- worlds
type Ops = Vec<(u64, Option<BTreeMap<String, Value>>)>;

struct World {
  props: Vec<Prop>,
  /// batches of operations: Some(doc) = add / upsert, None = delete
  batches: Vec<Ops>,
  reopen_after: Vec<bool>,
  filters: Vec<Filter>,
  queries: Vec<Value>,
  class: &'static str,
}

fn kwp(n: &str, nullable: bool) -> Prop {
  Prop::Leaf { name: n.into(), kind: Kind::Kw, nullable, stored: true, indexed: true, fast: true }
}
fn txt(n: &str) -> Prop {
  Prop::Leaf { name: n.into(), kind: Kind::Text, nullable: true, stored: true, indexed: true, fast: false }
}
fn adds(docs: Vec<Value>) -> Vec<Ops> {
  docs
    .into_iter()
    .enumerate()
    .map(|(i, d)| vec![(i as u64, Some(d.as_object().unwrap().iter().map(|(k, v)| (k.clone(), v.clone())).collect()))])
    .collect()
}

/// the documents of the defect reports: empty nested objects, a required nested object with an
/// empty stored form, a required unstored property, a vector field, a fast-only field
fn corpus_worlds() -> Vec<World> {
  let nest = |p: &str, f: Filter| Filter::Nested { path: p.into(), filter: Box::new(f) };
  let eq = |f: &str, v: &str| Filter::KeywordEq { field: f.into(), value: v.into() };
  let mut ws = Vec::new();
  ws.push(World {
    props: vec![txt("t"), Prop::Obj { name: "c".into(), nullable: true, fields: vec![kwp("a", true)] }],
    batches: adds(vec![
      json!({"c":[{}, {"a":"p"}]}),
      json!({"c":[{"a":"p"}], "t": null}),
      json!({"c":[], "t": ["rust fast", "", "index"]}),
      json!({"c":{}}),
      json!({"c":[null, {"a": null}], "t": ["the", "rust"]}),
    ]),
    reopen_after: vec![false, true, false, false, false],
    filters: vec![nest("c", Filter::Not(Box::new(eq("a", "p")))), nest("c", Filter::And(vec![])), nest("c", eq("a", "P"))],
    queries: vec![
      json!({"type":"phrase","field":"t","terms":["fast","index"],"slop":0}),
      json!({"type":"phrase","field":"t","terms":["fast","index"],"slop":1}),
      json!({"type":"phrase","field":"t","terms":["fast","index"],"slop":2}),
      json!({"type":"term","field":"c.a","value":"p"}),
    ],
    class: "corpus_empty_objects",
  });
  ws.push(World {
    props: vec![Prop::Obj {
      name: "c".into(),
      nullable: true,
      fields: vec![kwp("k", true), Prop::Obj { name: "r".into(), nullable: false, fields: vec![kwp("a", true)] }],
    }],
    batches: adds(vec![json!({"c":{"k":"p","r":{}}}), json!({"c":{"k":"q","r":[]}}), json!({"c":[{"r":[{}, {"a":"p"}]}]})]),
    reopen_after: vec![false; 3],
    filters: vec![nest("c", nest("r", Filter::And(vec![]))), nest("c", nest("r", Filter::Not(Box::new(eq("a", "p")))))],
    queries: vec![json!({"type":"term","field":"c.k","value":"p"})],
    class: "corpus_required_inner_object",
  });
  ws.push(World {
    props: vec![Prop::Obj {
      name: "c".into(),
      nullable: true,
      fields: vec![
        kwp("k", true),
        Prop::Leaf { name: "b".into(), kind: Kind::Kw, nullable: false, stored: false, indexed: false, fast: false },
      ],
    }],
    batches: adds(vec![json!({"c":{"k":"p","b":"q"}}), json!({"c":{"k":"q","b":"q"}})]),
    reopen_after: vec![false; 2],
    filters: vec![nest("c", eq("k", "p"))],
    queries: vec![json!({"type":"term","field":"c.k","value":"p"})],
    class: "corpus_required_unstored",
  });
  ws.push(World {
    props: vec![
      txt("t"),
      Prop::Leaf { name: "v".into(), kind: Kind::Vector, nullable: true, stored: false, indexed: false, fast: true },
    ],
    batches: adds(vec![json!({"t":"rust","v":[1.0, 0.0]}), json!({"t":"fast","v":[0.0, 1.0]}), json!({"t":"wal"})]),
    reopen_after: vec![false; 3],
    filters: vec![],
    queries: vec![
      json!({"vector_query":{"field":"v","vector":[1.0, 0.0],"alpha":0.0,"k":2}}),
      json!({"type":"vector","field":"v","vector":[0.0, 1.0],"k":1}),
      json!({"type":"term","field":"t","value":"rust"}),
    ],
    class: "corpus_vector",
  });
  ws.push(World {
    props: vec![
      txt("t"),
      Prop::Leaf { name: "a".into(), kind: Kind::Kw, nullable: false, stored: false, indexed: false, fast: true },
    ],
    batches: adds(vec![json!({"t":"rust","a":"p"}), json!({"t":"fast","a":"q"})]),
    reopen_after: vec![false; 2],
    filters: vec![eq("a", "p")],
    queries: vec![json!({"type":"term","field":"t","value":"rust"})],
    class: "corpus_fast_only",
  });
  // a NESTED property that is nullable, indexed and fast but not stored: its data cannot be rebuilt
  // from the stored documents, so compaction has to refuse (the refusal must cover nested paths,
  // not only top-level fields)
  ws.push(World {
    props: vec![
      txt("t"),
      Prop::Obj {
        name: "c".into(),
        nullable: true,
        fields: vec![
          kwp("a", true),
          Prop::Leaf { name: "b".into(), kind: Kind::Kw, nullable: true, stored: false, indexed: true, fast: true },
        ],
      },
    ],
    batches: adds(vec![
      json!({"t":"rust","c":[{"a":"p","b":"x"},{"a":"q"}]}),
      json!({"t":"fast","c":{"a":"p","b":"y"}}),
    ]),
    reopen_after: vec![false; 2],
    filters: vec![nest("c", eq("b", "x")), nest("c", eq("a", "p"))],
    queries: vec![json!({"type":"term","field":"t","value":"rust"})],
    class: "corpus_nested_unstored",
  });
  // the same for every way a nested property can carry index data without being stored: a
  // keyword that exists only as a fast column, a text that is only indexed, a numeric column
  for (leaf, flt, class) in [
    (Prop::Leaf { name: "b".into(), kind: Kind::Kw, nullable: true, stored: false, indexed: false, fast: true },
     nest("c", eq("b", "x")), "corpus_nested_kw_fast_only"),
    (Prop::Leaf { name: "n".into(), kind: Kind::I64, nullable: true, stored: false, indexed: true, fast: true },
     nest("c", eq("a", "q")), "corpus_nested_i64_unstored"),
  ] {
    let name = match &leaf { Prop::Leaf { name, .. } => name.clone(), _ => unreachable!() };
    let v1 = if name == "n" { json!(7) } else { json!("x") };
    let v2 = if name == "n" { json!(9) } else { json!("y") };
    ws.push(World {
      props: vec![txt("t"), Prop::Obj { name: "c".into(), nullable: true, fields: vec![kwp("a", true), leaf] }],
      batches: adds(vec![
        json!({"t":"rust","c":[{"a":"p", name.clone(): v1},{"a":"q"}]}),
        json!({"t":"fast","c":{"a":"p", name.clone(): v2}}),
      ]),
      reopen_after: vec![false; 2],
      filters: vec![flt, nest("c", eq("a", "p"))],
      queries: vec![json!({"type":"term","field":"t","value":"rust"})],
      class,
    });
  }
  ws
}

fn random_world(rng: &mut Rng, thorough: bool, st: &mut Stats, fst: &mut FStats, qs: &mut QStats) -> World {
  let mode = rng.below(10);
  let safe = mode < 7;
  let mut props = gen_props(rng, 0, safe);
  let mut class = if safe { "safe" } else { "random_flags" };
  if mode == 9 && rng.chance(1, 2) {
    props.push(Prop::Leaf { name: "v".into(), kind: Kind::Vector, nullable: true, stored: false, indexed: false, fast: true });
    class = "vector";
  }
  let nb = match rng.below(10) {
    0 => 1,
    1 | 2 => 2,
    _ => 2 + rng.below(if thorough { 6 } else { 4 }) as usize,
  };
  let ids = 4 + rng.below(10);
  let mut batches = Vec::new();
  let mut reopen_after = Vec::new();
  for _ in 0..nb {
    let k = 1 + rng.below(if thorough { 10 } else { 8 }) as usize;
    let mut ops = Vec::new();
    for _ in 0..k {
      let id = rng.below(ids);
      if rng.chance(1, 4) {
        ops.push((id, None));
      } else {
        ops.push((id, Some(gen_doc(rng, &props, st))));
      }
    }
    batches.push(ops);
    reopen_after.push(rng.chance(1, 6));
  }
  let nf = if thorough { 60 } else { 30 };
  let mut filters = Vec::new();
  for _ in 0..nf {
    let mut ill = false;
    filters.push(gen_filter(rng, &props, 0, fst, &mut ill));
    if ill {
      fst.ill_typed += 1;
    }
  }
  let mut qfields = Vec::new();
  query_fields(&props, "", &mut qfields);
  let nq = if thorough { 60 } else { 30 };
  let mut queries: Vec<Value> = (0..nq).map(|_| gen_query(rng, &qfields, qs)).collect();
  if class == "vector" {
    for _ in 0..4 {
      qs.vector += 1;
      queries.push(json!({"vector_query":{"field":"v","vector":[rng.range(-2, 2) as f64 + 0.5, 1.0],"alpha":0.0,"k":3}}));
    }
  }
  World { props, batches, reopen_after, filters, queries, class }
}

fn main() {
  let args = parse_args();
  let mut rng = Rng::new(args.seed);
  let thorough = args.tier == "thorough";
  let mut st = Stats::default();
  let mut fst = FStats::default();
  let mut qs = QStats::default();
  let mut worlds = corpus_worlds();
  for _ in 0..args.n.max(1) {
    let mut wr = rng.fork();
    worlds.push(random_world(&mut wr, thorough, &mut st, &mut fst, &mut qs));
  }

  let mut it = Intern { names: BTreeMap::new(), strs: BTreeMap::new() };
  let mut cases: Vec<String> = Vec::new();
  let mut meta: Vec<Value> = Vec::new();
  let progress = args.out.join("progress.txt");
  let mut dist: BTreeMap<String, u64> = BTreeMap::new();
  let mut query_errors = 0usize;

  for (w, world) in worlds.iter().enumerate() {
    let props = &world.props;
    let dir = slv::fixtures::scratch();
    std::fs::write(&progress, format!("world {w} ({}) schema {props:?}\n", world.class)).ok();
    let mut idx = IndexBuilder::create(dir.path(), real_schema(props), opts(dir.path())).expect("create index");
    // source documents of every segment, by id (a segment is written by every commit that adds)
    let mut seg_sources: Vec<BTreeMap<String, BTreeMap<String, Value>>> = Vec::new();
    for (bi, ops) in world.batches.iter().enumerate() {
      let mut pending: BTreeMap<String, BTreeMap<String, Value>> = BTreeMap::new();
      {
        let mut wtr = idx.writer().expect("writer");
        for (id, op) in ops.iter() {
          let key = format!("d{id:04}");
          match op {
            Some(d) => {
              let mut fields = d.clone();
              fields.insert("_id".into(), Value::String(key.clone()));
              std::fs::write(&progress, format!("world {w} batch {bi} add {}\n", json!(fields))).ok();
              wtr.add_document(&Document { fields }).expect("add_document of a schema-valid document");
              pending.insert(key, d.clone());
            }
            None => {
              wtr.delete_documents(&[key.clone()]).expect("delete");
              pending.remove(&key);
            }
          }
        }
        wtr.commit().expect("commit");
      }
      if !pending.is_empty() {
        seg_sources.push(pending);
      }
      if world.reopen_after[bi] {
        drop(idx);
        idx = Index::open(opts(dir.path())).expect("reopen");
      }
    }

    // ---- the manifest at the time of the call, with the source document of every ordinal
    let reader = idx.reader().expect("reader");
    assert_eq!(reader.segments.len(), seg_sources.len(), "world {w}: one segment per adding commit");
    let mut man_lit = Vec::new();
    let mut man_json = Vec::new();
    let mut fl: Vec<f64> = Vec::new();
    for ops in world.batches.iter() {
      for (_, op) in ops.iter() {
        if let Some(d) = op {
          d.values().for_each(|v| floats_in(v, &mut fl));
        }
      }
    }
    world.filters.iter().for_each(|f| floats_in_filter(f, &mut fl));
    std::fs::write(&progress, format!("world {w} observing before\n")).ok();
    let before = view(&idx, &world.filters, &world.queries, &mut query_errors);
    let l0 = listing(dir.path());
    std::fs::write(&progress, format!("world {w} compact\n")).ok();
    let result = idx.compact();
    let l1 = listing(dir.path());
    std::fs::write(&progress, format!("world {w} observing after\n")).ok();
    // a fresh handle: what is on disk, not what this handle remembers
    let idx2 = Index::open(opts(dir.path())).expect("open after compact");
    let after = view(&idx2, &world.filters, &world.queries, &mut query_errors);
    for v in before.stored.iter().chain(after.stored.iter()) {
      floats_in(&v.1, &mut fl);
    }
    fl.sort_by(|a, b| a.partial_cmp(b).expect("no NaN"));
    fl.dedup_by(|a, b| *a == *b);

    for (si, seg) in reader.segments.iter().enumerate() {
      let mut docs = Vec::new();
      let mut docs_json = Vec::new();
      for ord in 0..seg.meta.doc_count {
        let key = seg.doc_id(ord).expect("doc id of ordinal").to_string();
        let src = seg_sources[si].get(&key).unwrap_or_else(|| panic!("world {w}: segment {si} ordinal {ord} holds {key}"));
        let m: Map<String, Value> = src.iter().map(|(k, v)| (k.clone(), v.clone())).collect();
        docs.push(format!("({}, {})", parse_id(&key), p_obj(&m, Some(props), &mut it, &fl)));
        docs_json.push(json!([key, m]));
      }
      let mut del: Vec<u64> = seg.meta.deleted_docs.iter().map(|d| *d as u64).collect();
      del.sort();
      man_lit.push(format!("(mkseg {} {})", coq::list(&docs), coq::nlist(&del)));
      man_json.push(json!({"docs": docs_json, "deleted": del}));
    }
    drop(reader);

    let ok = result.is_ok();
    let same_listing = l0 == l1;
    let fs: Vec<String> = world.filters.iter().map(|f| p_filter(f, &mut it, &fl)).collect();
    let case_in = format!("(mkcase {} {} {})", p_props(props, &mut it), coq::list(&man_lit), coq::list(&fs));
    let obs = format!(
      "(mkobs {} {} {} {})",
      coq::b(ok),
      p_view(&before, props, &mut it, &fl),
      p_view(&after, props, &mut it, &fl),
      coq::b(same_listing)
    );
    cases.push(format!("({case_in}, {obs})"));

    let mut bump = |k: &str, n: u64| *dist.entry(k.to_string()).or_insert(0) += n;
    bump(&format!("worlds_{}", world.class), 1);
    bump(if before.segs <= 1 { "compact_noop" } else if ok { "compact_ok" } else { "compact_refused" }, 1);
    bump("segments_before", before.segs as u64);
    bump("tombstones_before", before.tombs as u64);
    bump("live_documents", before.stored.len() as u64);
    bump("filters_with_some_hit", before.fhits.iter().filter(|h| !h.is_empty()).count() as u64);
    bump("queries_with_some_hit", before.qhits.iter().filter(|h| !h.is_empty() && h[0] != ERR_HIT).count() as u64);
    bump("filters", world.filters.len() as u64);
    bump("queries", world.queries.len() as u64);
    if !same_listing && !ok {
      bump("refusals_that_touched_the_directory", 1);
    }
    meta.push(json!({
      "world": w, "class": world.class, "schema": format!("{props:?}"),
      "manifest": man_json, "compact": result.as_ref().map(|_| "ok".to_string()).unwrap_or_else(|e| format!("{e:#}")),
      "before": view_json(&before), "after": view_json(&after), "listing_same": same_listing,
      "filters": world.filters.iter().map(|f| format!("{f:?}")).collect::<Vec<_>>(),
      "queries": world.queries,
      "nt": before.segs >= 2,
    }));
  }
  std::fs::remove_file(&progress).ok();

  let files = slv::write_cases(
    &args.out,
    "From SL Require Import C08.Model C14.Model.\n",
    "case_in * case_obs",
    "check_case",
    &cases,
    3,
  );
  let mut distribution = json!({
    "worlds": worlds.len(),
    "empty_nested_objects": st.empty_objects, "null_entries_in_nested_arrays": st.null_entries,
    "null_properties": st.null_props, "single_object_nested_values": st.single_objects, "empty_arrays": st.empty_arrays,
    "multi_valued_leaves": st.multi_valued, "multi_valued_text_with_empty_or_stopword_value": st.empty_strings_in_multi_text,
    "one_element_arrays": st.one_element_arrays, "f64_given_as_integer": st.f64_given_as_integer,
    "nested_clauses": fst.nested, "not_nodes": fst.not, "ill_typed_filters": fst.ill_typed,
    "term_queries": qs.term, "phrase_queries": qs.phrase, "phrase_queries_with_slop": qs.phrase_with_slop,
    "prefix_queries": qs.prefix, "bool_queries": qs.boolean, "vector_queries": qs.vector,
    "query_leaves_on_nested_fields": qs.on_nested_field, "query_errors_or_panics": query_errors,
  });
  for (k, v) in dist.iter() {
    distribution[k] = json!(v);
  }
  write_json(&args.out, "cases.json", &json!({"files": files, "cases": meta, "distribution": distribution}));
}
