//! C15 engine: random schemas (text / keyword / i64 / f64 fields, nested objects to three levels,
//! an optional vector field), valid documents and near-valid mutants (extra fields, wrong types,
//! nulls, nested arrays of arrays, scalars inside nested arrays, missing required properties,
//! bad ids, malformed vectors).  Per document the real `IndexWriter::add_document`, the
//! `commit` that follows, and a further add of a known-good document + `commit` are run.
use searchlite_core::api::types::{Document, StorageType};
use searchlite_core::api::IndexBuilder;
use serde_json::{json, Map, Value};
use slv::{coq, parse_args, write_cases, write_json, Rng};
use std::collections::BTreeMap;
use std::panic::{catch_unwind, AssertUnwindSafe};

#[derive(Clone, Copy, PartialEq, Debug)]
enum Kind {
  Text,
  Kw,
  I64,
  F64,
}

#[derive(Clone, Debug)]
enum Prop {
  Leaf { name: String, kind: Kind, nullable: bool, stored: bool },
  Obj { name: String, nullable: bool, fields: Vec<Prop> },
}

const S_NAMES: [&str; 4] = ["title", "a", "b", "k"];
const I_NAMES: [&str; 2] = ["n", "m"];
const F_NAMES: [&str; 2] = ["x", "y"];
const O_NAMES: [&str; 3] = ["c", "r", "s"];

fn gen_props(rng: &mut Rng, depth: usize) -> Vec<Prop> {
  let mut out = Vec::new();
  let mut ss: Vec<&str> = S_NAMES.to_vec();
  for _ in 0..(1 + rng.below(2)) {
    let i = rng.below(ss.len() as u64) as usize;
    let kind = if rng.chance(1, 3) { Kind::Text } else { Kind::Kw };
    out.push(Prop::Leaf { name: ss.remove(i).into(), kind, nullable: rng.chance(1, 2), stored: rng.chance(1, 2) });
  }
  if rng.chance(2, 3) {
    out.push(Prop::Leaf { name: rng.pick(&I_NAMES).to_string(), kind: Kind::I64, nullable: rng.chance(1, 2), stored: rng.chance(1, 2) });
  }
  if rng.chance(1, 2) {
    out.push(Prop::Leaf { name: rng.pick(&F_NAMES).to_string(), kind: Kind::F64, nullable: rng.chance(1, 2), stored: rng.chance(1, 2) });
  }
  if depth < 3 {
    let nobj = match depth {
      0 => 1 + rng.below(2),
      1 => rng.below(3),
      _ => rng.below(2),
    };
    let mut os: Vec<&str> = O_NAMES.to_vec();
    for _ in 0..nobj {
      let i = rng.below(os.len() as u64) as usize;
      out.push(Prop::Obj { name: os.remove(i).into(), nullable: rng.chance(1, 2), fields: gen_props(rng, depth + 1) });
    }
  }
  out
}

fn nested_json(p: &Prop) -> Value {
  match p {
    Prop::Leaf { name, kind: Kind::Text, nullable, stored } => {
      json!({"type":"text","name":name,"analyzer":"default","stored":stored,"indexed":true,"nullable":nullable})
    }
    Prop::Leaf { name, kind: Kind::Kw, nullable, stored } => {
      json!({"type":"keyword","name":name,"stored":stored,"indexed":true,"fast":true,"nullable":nullable})
    }
    Prop::Leaf { name, kind, nullable, stored } => {
      json!({"type":"numeric","name":name,"i64": *kind == Kind::I64,"fast":true,"stored":stored,"nullable":nullable})
    }
    Prop::Obj { name, nullable, fields } => {
      json!({"type":"object","name":name,"nullable":nullable,"fields": fields.iter().map(nested_json).collect::<Vec<_>>()})
    }
  }
}

fn schema_json(props: &[Prop], vec_dim: Option<usize>) -> Value {
  let mut text = Vec::new();
  let mut kw = Vec::new();
  let mut num = Vec::new();
  let mut nested = Vec::new();
  for p in props {
    match p {
      Prop::Leaf { name, kind: Kind::Text, nullable, stored } => {
        text.push(json!({"name":name,"analyzer":"default","stored":stored,"indexed":true,"nullable":nullable}))
      }
      Prop::Leaf { name, kind: Kind::Kw, nullable, stored } => {
        kw.push(json!({"name":name,"stored":stored,"indexed":true,"fast":true,"nullable":nullable}))
      }
      Prop::Leaf { name, kind, nullable, stored } => {
        num.push(json!({"name":name,"i64": *kind == Kind::I64,"fast":true,"stored":stored,"nullable":nullable}))
      }
      Prop::Obj { name, nullable, fields } => {
        nested.push(json!({"name":name,"nullable":nullable,"fields": fields.iter().map(nested_json).collect::<Vec<_>>()}))
      }
    }
  }
  let vecs: Vec<Value> = vec_dim.iter().map(|d| json!({"name":"vec","dim":d,"metric":"L2"})).collect();
  json!({"doc_id_field":"_id","text_fields":text,"keyword_fields":kw,"numeric_fields":num,"nested_fields":nested,"vector_fields":vecs})
}

// ---------------------------------------------------------------- valid documents
fn gen_scalar(rng: &mut Rng, kind: Kind) -> Value {
  match kind {
    Kind::Text | Kind::Kw => json!(*rng.pick(&["alpha", "Beta gamma", "", " ", "x"])),
    Kind::I64 => json!(rng.range(-5, 50)),
    Kind::F64 => {
      if rng.chance(1, 3) {
        json!(rng.range(-5, 5))
      } else {
        json!(rng.range(-20, 20) as f64 * 0.25)
      }
    }
  }
}

fn gen_leaf(rng: &mut Rng, kind: Kind, nullable: bool, top: bool) -> Option<Value> {
  match rng.below(10) {
    0 if nullable || top => None,
    1 if nullable => Some(Value::Null),
    2 | 3 => Some(Value::Array((0..rng.below(4)).map(|_| gen_scalar(rng, kind)).collect())),
    _ => Some(gen_scalar(rng, kind)),
  }
}

fn gen_obj(rng: &mut Rng, fields: &[Prop]) -> Value {
  let mut m = Map::new();
  for p in fields {
    match p {
      Prop::Leaf { name, kind, nullable, .. } => {
        if let Some(v) = gen_leaf(rng, *kind, *nullable, false) {
          m.insert(name.clone(), v);
        }
      }
      Prop::Obj { name, nullable, fields } => {
        if let Some(v) = gen_nested(rng, fields, *nullable, false) {
          m.insert(name.clone(), v);
        }
      }
    }
  }
  Value::Object(m)
}

fn gen_nested(rng: &mut Rng, fields: &[Prop], nullable: bool, top: bool) -> Option<Value> {
  match rng.below(10) {
    0 if nullable || top => None,
    1 if nullable => Some(Value::Null),
    2 => Some(gen_obj(rng, fields)),
    _ => {
      let n = rng.below(4);
      Some(Value::Array(
        (0..n).map(|_| if nullable && rng.chance(1, 8) { Value::Null } else { gen_obj(rng, fields) }).collect(),
      ))
    }
  }
}

fn gen_doc(rng: &mut Rng, props: &[Prop], vec_dim: Option<usize>, id: &str) -> Map<String, Value> {
  let mut m = Map::new();
  m.insert("_id".into(), json!(id));
  for p in props {
    match p {
      Prop::Leaf { name, kind, nullable, .. } => {
        if let Some(v) = gen_leaf(rng, *kind, *nullable, true) {
          m.insert(name.clone(), v);
        }
      }
      Prop::Obj { name, nullable, fields } => {
        if let Some(v) = gen_nested(rng, fields, *nullable, true) {
          m.insert(name.clone(), v);
        }
      }
    }
  }
  if let Some(d) = vec_dim {
    match rng.below(4) {
      0 => {}
      1 => {
        m.insert("vec".into(), Value::Null);
      }
      _ => {
        m.insert("vec".into(), Value::Array((0..d).map(|_| json!(rng.range(1, 9) as f64 * 0.5)).collect()));
      }
    }
  }
  m
}

// ---------------------------------------------------------------- mutations
fn junk(rng: &mut Rng) -> Value {
  match rng.below(9) {
    0 => Value::Null,
    1 => json!(true),
    2 => json!("str"),
    3 => json!(7),
    4 => json!(2.5),
    5 => json!([1, "two"]),
    6 => json!({"zz": 1}),
    7 => json!([[]]),
    _ => json!([]),
  }
}

/// paths to every value in the document (top-level keys excluded: handled separately)
fn all_paths(v: &Value, cur: &mut Vec<PathSeg>, out: &mut Vec<Vec<PathSeg>>) {
  match v {
    Value::Object(m) => {
      for (k, x) in m {
        cur.push(PathSeg::Key(k.clone()));
        out.push(cur.clone());
        all_paths(x, cur, out);
        cur.pop();
      }
    }
    Value::Array(a) => {
      for (i, x) in a.iter().enumerate() {
        cur.push(PathSeg::Idx(i));
        out.push(cur.clone());
        all_paths(x, cur, out);
        cur.pop();
      }
    }
    _ => {}
  }
}

#[derive(Clone, Debug)]
enum PathSeg {
  Key(String),
  Idx(usize),
}

fn get_mut<'a>(v: &'a mut Value, path: &[PathSeg]) -> Option<&'a mut Value> {
  let mut cur = v;
  for s in path {
    cur = match s {
      PathSeg::Key(k) => cur.as_object_mut()?.get_mut(k)?,
      PathSeg::Idx(i) => cur.as_array_mut()?.get_mut(*i)?,
    };
  }
  Some(cur)
}

fn mutate(rng: &mut Rng, doc: &mut Value, what: &mut BTreeMap<String, usize>) {
  let mut paths = Vec::new();
  all_paths(doc, &mut Vec::new(), &mut paths);
  let mut note = |s: &str| *what.entry(s.to_string()).or_insert(0) += 1;
  match rng.below(12) {
    0 => {
      doc.as_object_mut().unwrap().insert(rng.pick(&["bogus", "extra", "c2"]).to_string(), junk(rng));
      note("unknown_top_level_field");
    }
    1 => {
      // unknown key inside some nested object
      let objs: Vec<&Vec<PathSeg>> = paths.iter().filter(|p| get_ref(doc, p).map(|v| v.is_object()).unwrap_or(false)).collect();
      if let Some(p) = objs.get(rng.below(objs.len().max(1) as u64) as usize).cloned().cloned() {
        if let Some(Value::Object(m)) = get_mut(doc, &p) {
          m.insert("zz".into(), junk(rng));
          note("unknown_nested_field");
        }
      }
    }
    2 | 3 => {
      // replace a value by junk of another shape
      if !paths.is_empty() {
        let p = paths[rng.below(paths.len() as u64) as usize].clone();
        if let Some(v) = get_mut(doc, &p) {
          *v = junk(rng);
          note("value_replaced_by_junk");
        }
      }
    }
    4 => {
      if !paths.is_empty() {
        let p = paths[rng.below(paths.len() as u64) as usize].clone();
        if let Some(v) = get_mut(doc, &p) {
          *v = Value::Null;
          note("value_set_to_null");
        }
      }
    }
    5 => {
      // wrap an array (or a value) into an array: arrays of arrays
      let arrs: Vec<Vec<PathSeg>> = paths.iter().filter(|p| get_ref(doc, p).map(|v| v.is_array() || v.is_object()).unwrap_or(false)).cloned().collect();
      if !arrs.is_empty() {
        let p = arrs[rng.below(arrs.len() as u64) as usize].clone();
        if let Some(v) = get_mut(doc, &p) {
          let old = v.take();
          *v = if old.is_array() && rng.chance(1, 2) {
            // wrap every entry
            Value::Array(old.as_array().unwrap().iter().map(|e| json!([e])).collect())
          } else {
            json!([old])
          };
          note("array_of_arrays");
        }
      }
    }
    6 => {
      // push a scalar (or junk) into an array
      let arrs: Vec<Vec<PathSeg>> = paths.iter().filter(|p| get_ref(doc, p).map(|v| v.is_array()).unwrap_or(false)).cloned().collect();
      if !arrs.is_empty() {
        let p = arrs[rng.below(arrs.len() as u64) as usize].clone();
        if let Some(Value::Array(a)) = get_mut(doc, &p) {
          a.push(junk(rng));
          note("junk_pushed_into_array");
        }
      }
    }
    7 | 8 => {
      // remove a property of a nested object
      let keyed: Vec<Vec<PathSeg>> = paths.iter().filter(|p| p.len() >= 2 && matches!(p.last(), Some(PathSeg::Key(_)))).cloned().collect();
      if !keyed.is_empty() {
        let p = keyed[rng.below(keyed.len() as u64) as usize].clone();
        if let (Some(PathSeg::Key(k)), Some(Value::Object(m))) = (p.last().cloned(), get_mut(doc, &p[..p.len() - 1])) {
          m.remove(&k);
          note("nested_property_removed");
        }
      }
    }
    9 => {
      let m = doc.as_object_mut().unwrap();
      match rng.below(5) {
        0 => {
          m.remove("_id");
        }
        1 => {
          m.insert("_id".into(), json!("   "));
        }
        2 => {
          m.insert("_id".into(), json!(""));
        }
        3 => {
          m.insert("_id".into(), json!(12));
        }
        _ => {
          m.insert("_id".into(), Value::Null);
        }
      }
      note("bad_id");
    }
    10 => {
      let m = doc.as_object_mut().unwrap();
      if m.contains_key("vec") || rng.chance(1, 3) {
        let v = match rng.below(5) {
          0 => json!([1.0]),
          1 => json!([1.0, 2.0, 3.0, 4.0, 5.0]),
          2 => json!("vec"),
          3 => json!([1.0, "x"]),
          _ => json!({"a": 1}),
        };
        m.insert("vec".into(), v);
        note("bad_vector");
      }
    }
    _ => {
      // a number of the other numeric flavour somewhere (float in an i64 field is invalid,
      // integer in an f64 field is fine)
      let nums: Vec<Vec<PathSeg>> = paths.iter().filter(|p| get_ref(doc, p).map(|v| v.is_number()).unwrap_or(false)).cloned().collect();
      if !nums.is_empty() {
        let p = nums[rng.below(nums.len() as u64) as usize].clone();
        if let Some(v) = get_mut(doc, &p) {
          *v = if v.as_i64().is_some() { json!(0.5) } else { json!(3) };
          note("numeric_flavour_swapped");
        }
      }
    }
  }
}

fn get_ref<'a>(v: &'a Value, path: &[PathSeg]) -> Option<&'a Value> {
  let mut cur = v;
  for s in path {
    cur = match s {
      PathSeg::Key(k) => cur.as_object()?.get(k)?,
      PathSeg::Idx(i) => cur.as_array()?.get(*i)?,
    };
  }
  Some(cur)
}

// ---------------------------------------------------------------- printing
struct Names(BTreeMap<String, u64>);
impl Names {
  fn id(&mut self, s: &str) -> u64 {
    let n = self.0.len() as u64;
    *self.0.entry(s.to_string()).or_insert(n)
  }
}

fn p_props(ps: &[Prop], nm: &mut Names) -> String {
  let v: Vec<String> = ps
    .iter()
    .map(|p| match p {
      Prop::Leaf { name, kind, nullable, .. } => format!(
        "PLeaf {} {} {}",
        nm.id(name),
        match kind {
          Kind::Text | Kind::Kw => "LStr",
          Kind::I64 => "LI64",
          Kind::F64 => "LF64",
        },
        coq::b(*nullable)
      ),
      Prop::Obj { name, nullable, fields } => format!("PObj {} {} {}", nm.id(name), coq::b(*nullable), p_props(fields, nm)),
    })
    .collect();
  coq::list(&v)
}

fn p_jv(v: &Value, nm: &mut Names) -> String {
  match v {
    Value::Null => "VNull".into(),
    Value::Bool(_) => "VBool".into(),
    Value::String(s) => format!("(VStr {})", coq::b(s.trim().is_empty())),
    Value::Number(n) => format!("(VNum {})", coq::b(n.as_i64().is_some())),
    Value::Array(a) => {
      let xs: Vec<String> = a.iter().map(|x| p_jv(x, nm)).collect();
      format!("(VArr {})", coq::list(&xs))
    }
    Value::Object(m) => format!("(VObj {})", p_obj(m, nm)),
  }
}

fn p_obj(m: &Map<String, Value>, nm: &mut Names) -> String {
  let xs: Vec<String> = m.iter().map(|(k, v)| format!("({}, {})", nm.id(k), p_jv(v, nm))).collect();
  coq::list(&xs)
}

fn to_document(m: &Map<String, Value>) -> Document {
  Document { fields: m.iter().map(|(k, v)| (k.clone(), v.clone())).collect() }
}

fn main() {
  let args = parse_args();
  let mut rng = Rng::new(args.seed);
  let thorough = args.tier == "thorough";
  let worlds = args.n.max(1);
  let docs_per_world = if thorough { 120 } else { 60 };

  let mut nm = Names(BTreeMap::new());
  nm.id("_id");
  let mut header = String::from("From SL Require Import C15.Model.\nOpen Scope N_scope.\n");
  let mut cases: Vec<String> = Vec::new();
  let mut meta: Vec<Value> = Vec::new();
  let mut what: BTreeMap<String, usize> = BTreeMap::new();
  let (mut n_unmutated, mut n_accepted, mut n_rejected, mut n_commit_fail, mut n_blocked) = (0usize, 0usize, 0usize, 0usize, 0usize);
  let progress = args.out.join("progress.txt");

  for w in 0..worlds {
    let mut wr = rng.fork();
    let props = if w == 0 {
      // fixed world: the defect report's schema plus a stored title (used by the oversize document)
      vec![
        Prop::Leaf { name: "title".into(), kind: Kind::Text, nullable: true, stored: true },
        Prop::Obj {
          name: "c".into(),
          nullable: false,
          fields: vec![
            Prop::Leaf { name: "a".into(), kind: Kind::Kw, nullable: false, stored: true },
            Prop::Obj { name: "r".into(), nullable: true, fields: vec![Prop::Leaf { name: "b".into(), kind: Kind::Kw, nullable: false, stored: false }] },
          ],
        },
      ]
    } else {
      gen_props(&mut wr, 0)
    };
    let vec_dim = if w > 0 && wr.chance(1, 2) { Some(2 + wr.below(2) as usize) } else { None };
    let sj = schema_json(&props, vec_dim);
    let schema: searchlite_core::Schema = serde_json::from_value(sj.clone()).expect("schema json");
    let dir = slv::fixtures::scratch();
    let idx = IndexBuilder::create(dir.path(), schema, slv::fixtures::opts(dir.path(), StorageType::Filesystem)).expect("create index");
    let mut writer = idx.writer().expect("writer");
    let vecs = match vec_dim {
      Some(d) => format!("[({}, {})]", nm.id("vec"), d),
      None => "[]".into(),
    };
    header.push_str(&format!("Definition w{w}_sch : schema := mkschema 0 {} {}.\n", p_props(&props, &mut nm), vecs));
    let good = gen_doc(&mut Rng::new(0xC15), &[], None, "good");

    let mut todo: Vec<(Map<String, Value>, bool, &'static str)> = Vec::new();
    if w == 0 {
      for (d, tag) in [
        (json!({"_id":"w1","c":[{"a":"alice","r":[{"b":"p"}]},{"a":"bob","r":[{"b":"q"}]}]}), "valid"),
        (json!({"_id":"w2","c":{"a":"x"},"bogus":1}), "unknown top-level field"),
        (json!({"_id":"w3","c":[[{"a":"x"}]]}), "array of arrays"),
        (json!({"_id":"w4","c":[{"a":"x"},3]}), "scalar in nested array"),
        (json!({"_id":"w5","c":{"a":[1,2]}}), "numbers in nested keyword"),
        (json!({"_id":"w6","c":{"r":null}}), "missing required a"),
        (json!({"_id":"w7","c":null}), "null for non-nullable nested"),
        (json!({"_id":"  ","c":{"a":"x"}}), "blank id"),
        (json!({"_id":"w9","c":{"a":"x","r":[[{"b":"y"}]]}}), "array of arrays in child"),
      ] {
        todo.push((d.as_object().unwrap().clone(), false, tag));
      }
      // stored form above the 32 MiB docstore limit (known class 1)
      let mut big = Map::new();
      big.insert("_id".into(), json!("big"));
      big.insert("title".into(), Value::String("a".repeat(32 * 1024 * 1024 + 16)));
      big.insert("c".into(), json!({"a":"x"}));
      todo.push((big, true, "oversize stored document"));
    }
    for i in 0..docs_per_world {
      let mut d = Value::Object(gen_doc(&mut wr, &props, vec_dim, &format!("w{w}d{i}")));
      let k = match wr.below(8) {
        0 | 1 => 0,
        2..=5 => 1,
        _ => 2,
      };
      if k == 0 {
        n_unmutated += 1;
      }
      for _ in 0..k {
        mutate(&mut wr, &mut d, &mut what);
      }
      todo.push((d.as_object().unwrap().clone(), false, "random"));
    }

    for (i, (d, big, tag)) in todo.iter().enumerate() {
      let shown = if *big { json!({"_id":"big","title":"<32 MiB + 16 bytes of 'a'>","c":{"a":"x"}}) } else { Value::Object(d.clone()) };
      std::fs::write(&progress, format!("world {w} doc {i} ({tag}): {shown}\n")).ok();
      let doc = to_document(d);
      let add = catch_unwind(AssertUnwindSafe(|| writer.add_document(&doc).is_ok())).unwrap_or(false);
      let commit = catch_unwind(AssertUnwindSafe(|| writer.commit().is_ok())).unwrap_or(false);
      let later = catch_unwind(AssertUnwindSafe(|| writer.add_document(&to_document(&good)).is_ok() && writer.commit().is_ok())).unwrap_or(false);
      if !commit || !later {
        writer.rollback().expect("rollback");
        // the known-good document alone must go through again
        assert!(writer.add_document(&to_document(&good)).is_ok() && writer.commit().is_ok(), "writer unusable after rollback");
      }
      if add {
        n_accepted += 1
      } else {
        n_rejected += 1
      }
      if !commit {
        n_commit_fail += 1
      }
      if !later {
        n_blocked += 1
      }
      let body = if *big {
        // only the shape matters to the model: a long non-blank string
        let mut small = d.clone();
        small.insert("title".into(), json!("aaaa"));
        p_obj(&small, &mut nm)
      } else {
        p_obj(d, &mut nm)
      };
      cases.push(format!(
        "(mkcase w{w}_sch {} {}, mkobs {} {} {})",
        body,
        coq::b(*big),
        coq::b(add),
        coq::b(commit),
        coq::b(later)
      ));
      meta.push(json!({
        "world": w, "doc": shown, "tag": tag, "schema": if i == 0 { sj.clone() } else { Value::Null },
        "add_ok": add, "commit_ok": commit, "later_commit_ok": later,
        "nt": !add || !commit,
      }));
    }
  }
  std::fs::remove_file(&progress).ok();
  let files = write_cases(&args.out, &header, "case_in * case_obs", "check_case", &cases, 150);
  write_json(
    &args.out,
    "cases.json",
    &json!({
      "files": files, "cases": meta,
      "distribution": {
        "worlds": worlds, "documents": cases.len(), "unmutated_random_documents": n_unmutated,
        "accepted": n_accepted, "rejected_at_add": n_rejected, "commit_failures": n_commit_fail,
        "later_commit_blocked": n_blocked, "mutations": what,
      },
    }),
  );
}
