//! C28 engine: build an index, copy its directory, keep / modify / remove the original, then drive
//! the copy (open, search, commit, delete-only commit, compact) while the cfg(searchlite_verif)
//! file-system trace records every path touched.
use searchlite_core::api::types::StorageType;
use searchlite_core::storage::verif_trace::{self, FsOp};
use searchlite_core::Index;
use slv::{coq, parse_args, write_cases, write_json, Rng};
use std::collections::BTreeMap;
use std::path::{Path, PathBuf};

fn copy_dir(src: &Path, dst: &Path) {
  std::fs::create_dir_all(dst).unwrap();
  for e in std::fs::read_dir(src).unwrap() {
    let e = e.unwrap();
    let p = e.path();
    let d = dst.join(e.file_name());
    if p.is_dir() {
      copy_dir(&p, &d);
    } else {
      std::fs::copy(&p, &d).unwrap();
    }
  }
}

fn dir_digest(dir: &Path) -> Vec<(String, Vec<u8>)> {
  let mut out = Vec::new();
  if !dir.exists() {
    return out;
  }
  let mut stack = vec![dir.to_path_buf()];
  while let Some(d) = stack.pop() {
    for e in std::fs::read_dir(&d).unwrap() {
      let p = e.unwrap().path();
      if p.is_dir() {
        stack.push(p);
      } else {
        out.push((p.to_string_lossy().to_string(), std::fs::read(&p).unwrap()));
      }
    }
  }
  out.sort();
  out
}

fn paths_of(op: &FsOp) -> Vec<PathBuf> {
  match op {
    FsOp::OpenRead(p) | FsOp::ReadAll(p) | FsOp::Create(p) | FsOp::OpenAppend(p) | FsOp::Fsync(p)
    | FsOp::DirFsync(p) | FsOp::Unlink(p) | FsOp::RemoveDirAll(p) => vec![p.clone()],
    FsOp::Write { path, .. } => vec![path.clone()],
    FsOp::SetLen(p, _) => vec![p.clone()],
    FsOp::Rename(a, b) => vec![a.clone(), b.clone()],
    FsOp::Mark(_) => vec![],
  }
}

fn classes(trace: &[FsOp], a: &Path, b: &Path) -> (Vec<u64>, Vec<String>) {
  let mut cl = Vec::new();
  let mut foreign = Vec::new();
  for op in trace {
    for p in paths_of(op) {
      // a DirFsync names the directory itself
      // indexes may be created and opened through relative paths: classify the absolute location
      let p = if p.is_relative() { std::env::current_dir().unwrap().join(&p) } else { p };
      let c = if p.starts_with(b) { 1 } else if p.starts_with(a) { 0 } else { 2 };
      if c != 1 {
        foreign.push(format!("{op:?}").chars().take(160).collect());
      }
      cl.push(c);
    }
  }
  cl.sort();
  cl.dedup();
  (cl, foreign)
}

fn mkdoc(id: &str, n: u64) -> searchlite_core::api::types::Document {
  slv::fixtures::doc(serde_json::json!({"_id": id, "body": format!("text {n} common"), "tag": "t", "n": n}))
}

fn main() {
  let args = parse_args();
  let mut rng = Rng::new(args.seed);
  let mut cases = Vec::new();
  let mut meta = Vec::new();
  let mut dist: BTreeMap<String, usize> = BTreeMap::new();
  for case_no in 0..args.n {
    std::env::set_current_dir("/").ok();
    let scratch = slv::fixtures::scratch();
    // one case in three creates and opens the indexes through RELATIVE paths (the manifest then
    // records relative segment paths); a_abs / b_abs are the same locations, absolute
    let relative = rng.chance(1, 3);
    // directory names: unrelated, or siblings one of whose names is a string prefix of the other
    // (idx / idx_v2, idx.new / idx), or one nested under the other's parent name
    let (an, bn) = *rng.pick(&[("orig", "copy"), ("orig", "copy"), ("idx_v2", "idx"), ("idx", "idx_v2"), ("idx.new", "idx"), ("data/idx", "idx"), ("a", "ab")][..]);
    *dist.entry(format!("names_{an}_to_{bn}")).or_insert(0) += 1;
    let a_abs = scratch.path().join(an);
    let b_abs = scratch.path().join(bn);
    if let Some(p) = a_abs.parent() {
      std::fs::create_dir_all(p).unwrap();
    }
    let (a, b) = if relative {
      std::env::set_current_dir(scratch.path()).unwrap();
      (PathBuf::from(an), PathBuf::from(bn))
    } else {
      (a_abs.clone(), b_abs.clone())
    };
    *dist.entry(if relative { "relative_paths".to_string() } else { "absolute_paths".to_string() }).or_insert(0) += 1;
    let mut expected: BTreeMap<String, i64> = BTreeMap::new();
    let mut ver = 0u64;
    {
      let idx = Index::create(&a, slv::fixtures::basic_schema(), slv::fixtures::opts(&a, StorageType::Filesystem)).unwrap();
      let ncommits = 1 + rng.below(3);
      for _ in 0..ncommits {
        let mut w = idx.writer().unwrap();
        for _ in 0..(1 + rng.below(4)) {
          ver += 1;
          let id = format!("d{}", rng.below(8));
          w.add_document(&mkdoc(&id, ver)).unwrap();
          expected.insert(id, ver as i64);
        }
        if rng.chance(1, 4) && !expected.is_empty() {
          let id = expected.keys().next().unwrap().clone();
          w.delete_document(&id).unwrap();
          expected.remove(&id);
        }
        w.commit().unwrap();
      }
    }
    copy_dir(&a, &b);
    // the stored manifest of the copy, as (root class, leaf id) lists
    let man: serde_json::Value = serde_json::from_slice(&std::fs::read(b.join("MANIFEST.json")).unwrap()).unwrap();
    let mut leaf_ids: BTreeMap<String, u64> = BTreeMap::new();
    let mut stored: Vec<String> = Vec::new();
    for seg in man["segments"].as_array().unwrap() {
      let mut files = Vec::new();
      for (_k, v) in seg["paths"].as_object().unwrap() {
        if let Some(s) = v.as_str() {
          let p = Path::new(s);
          let leaf = p.file_name().unwrap().to_string_lossy().to_string();
          let n = leaf_ids.len() as u64 + 10;
          let id = *leaf_ids.entry(leaf).or_insert(n);
          let pa = if p.is_relative() { std::env::current_dir().unwrap().join(p) } else { p.to_path_buf() };
          let c = if pa.starts_with(&b_abs) { 1 } else if pa.starts_with(&a_abs) { 0 } else { 2 };
          files.push(coq::pair(&c.to_string(), &id.to_string()));
        }
      }
      stored.push(coq::list(&files));
    }
    let variant = rng.below(3); // 0 keep, 1 modify, 2 remove
    let vname = ["kept", "modified", "removed"][variant as usize];
    *dist.entry(format!("original_{vname}")).or_insert(0) += 1;
    match variant {
      1 => {
        let idx = Index::open(slv::fixtures::opts(&a, StorageType::Filesystem)).unwrap();
        let mut w = idx.writer().unwrap();
        w.add_document(&mkdoc("zz", 999)).unwrap();
        w.commit().unwrap();
        drop(w);
        let _ = idx.compact();
      }
      2 => std::fs::remove_dir_all(&a).unwrap(),
      _ => {}
    }
    let before = dir_digest(&a_abs);
    let mut roots: Vec<String> = Vec::new();
    let mut ops: Vec<String> = Vec::new();
    let mut ops_json: Vec<String> = Vec::new();
    let mut foreign_all: Vec<String> = Vec::new();
    let mut results_ok = true;
    let mut errors: Vec<String> = Vec::new();
    verif_trace::start();
    let mut o = slv::fixtures::opts(&b, StorageType::Filesystem);
    o.create_if_missing = false;
    let idx = Index::open(o);
    let (cl, f) = classes(&verif_trace::take(), &a_abs, &b_abs);
    roots.push(coq::nlist(&cl));
    foreign_all.extend(f);
    let mut fresh = 100u64;
    match idx {
      Err(e) => {
        results_ok = false;
        errors.push(format!("open: {e}"));
      }
      Ok(idx) => {
        let nops = 2 + rng.below(5);
        // always start with a search so that the copy is compared with the original at copy time
        for k in 0..nops {
          let kind = if k == 0 { 0 } else { rng.below(4) };
          verif_trace::start();
          let r: anyhow::Result<()> = (|| {
            match kind {
              0 => {
                ops.push("OSearch".into());
                ops_json.push("search".into());
              }
              1 => {
                let leaves: Vec<u64> = (0..5).map(|i| fresh + i).collect();
                fresh += 5;
                ops.push(format!("OCommit {}", coq::nlist(&leaves)));
                ops_json.push("commit(add)".into());
                let mut w = idx.writer()?;
                for _ in 0..(1 + rng.below(3)) {
                  ver += 1;
                  let id = format!("d{}", rng.below(8));
                  w.add_document(&mkdoc(&id, ver))?;
                  expected.insert(id, ver as i64);
                }
                w.commit()?;
              }
              2 => {
                ops.push("OCommitDel".into());
                ops_json.push("commit(delete)".into());
                let mut w = idx.writer()?;
                let id = expected.keys().next().cloned().unwrap_or_else(|| "nope".into());
                w.delete_document(&id)?;
                expected.remove(&id);
                w.commit()?;
              }
              _ => {
                let leaves: Vec<u64> = (0..5).map(|i| fresh + i).collect();
                fresh += 5;
                ops.push(format!("OCompact {}", coq::nlist(&leaves)));
                ops_json.push("compact".into());
                idx.compact()?;
              }
            }
            let got = slv::fixtures::contents(&idx)?;
            let want: Vec<(String, i64)> = expected.iter().map(|(k, v)| (k.clone(), *v)).collect();
            if got != want {
              anyhow::bail!("contents differ: got {got:?} want {want:?}");
            }
            Ok(())
          })();
          if let Err(e) = r {
            results_ok = false;
            errors.push(format!("{}: {e}", ops_json.last().unwrap()));
          }
          let (cl, f) = classes(&verif_trace::take(), &a_abs, &b_abs);
          roots.push(coq::nlist(&cl));
          foreign_all.extend(f);
        }
      }
    }
    let _ = verif_trace::take();
    let after = dir_digest(&a_abs);
    let untouched = before == after;
    let obs = format!(
      "{{| roots := {}; results_ok := {}; original_untouched := {} |}}",
      coq::list(&roots), coq::b(results_ok), coq::b(untouched)
    );
    cases.push(format!("({}, {}, {})", coq::list(&stored), coq::list(&ops), obs));
    foreign_all.truncate(5);
    meta.push(serde_json::json!({
      "case": case_no, "original": vname, "relative_paths": relative, "segments_in_copy": stored.len(), "ops": ops_json,
      "results_ok": results_ok, "original_untouched": untouched, "errors": errors,
      "paths_outside_copy": foreign_all, "nt": stored.len() >= 1,
    }));
  }
  let files = write_cases(&args.out, "From SL Require Import C28.Model.", "pmanifest * list op * obs28", "check_case", &cases, 100);
  write_json(&args.out, "cases.json", &serde_json::json!({"files": files, "cases": meta, "distribution": dist}));
}
