//! C19 engine: real `IndexReader::search` with a rescore section, compared with the same request
//! without it.  The outcome of the rescore query for every window hit (no match / rejected by
//! min_score / rescore score) is recomputed independently by running the rescore query as a main
//! query; combined scores are recomputed with the documented formula and compared bit for bit.
use searchlite_core::api::types::StorageType;
use serde_json::{json, Value};
use slv::qx::{self, World};
use slv::{coq, parse_args, write_cases, write_json, Rng};
use std::collections::{BTreeMap, HashMap};

fn ord32(bits: u32) -> u64 {
  // order-preserving map of f32::total_cmp
  if bits < 0x8000_0000 {
    bits as u64 + 0x8000_0000
  } else {
    0xFFFF_FFFFu64 - bits as u64
  }
}

fn score_key(bits: u32, docord: u64) -> u64 {
  ((0xFFFF_FFFFu64 - ord32(bits)) << 32) | docord
}

fn combine(mode: &str, orig: f32, resc: f32) -> f32 {
  match mode {
    "total" | "sum" => orig + resc,
    "multiply" => orig * resc,
    "max" => orig.max(resc),
    "min" => orig.min(resc),
    _ => unreachable!(),
  }
}

fn hits_of(r: &searchlite_core::api::reader::SearchResult) -> Vec<(u64, u32)> {
  r.hits.iter().map(|h| (qx::parse_id(&h.doc_id), h.score.to_bits())).collect()
}

fn coq_hit(id: u64, key: u64, score: u32) -> String {
  format!("{{| h_id := {id}; h_key := {key}; h_score := {score} |}}")
}

fn main() {
  let args = parse_args();
  let mut rng = Rng::new(args.seed);
  let thorough = args.tier == "thorough";
  let progress = args.out.join("progress.txt");
  let mut lits: Vec<String> = Vec::new();
  let mut meta: Vec<Value> = Vec::new();
  let mut dist: BTreeMap<String, u64> = BTreeMap::new();
  let bump = |dist: &mut BTreeMap<String, u64>, k: &str, n: u64| {
    *dist.entry(k.to_string()).or_insert(0) += n;
  };
  for wi in 0..args.n {
    let nseg = 1 + rng.below(3) as usize;
    let storage = if rng.chance(1, 2) { StorageType::InMemory } else { StorageType::Filesystem };
    let max_docs = if rng.chance(1, 2) { 20 } else { 9 };
    let mut w = if wi == 0 {
      // fixed scenario (the finding of this property): match_all ranks d0,d1,d2,d3 with score 1.0;
      // window 2; the rescore query rejects d0 (min_score) and gives d1 a factor < 1
      let mut w = World::build(&mut rng, 0, 3, 3, StorageType::InMemory);
      w.commit_batch(&[
        json!({"body": "wal heap heap heap heap heap heap heap"}),
        json!({"body": "wal heap heap heap"}),
        json!({"body": "heap"}),
        json!({"body": "heap"}),
      ]);
      w
    } else {
      World::build(&mut rng, nseg, 3, max_docs, storage)
    };
    if wi > 0 && rng.chance(1, 4) {
      let ids: Vec<u64> = (0..1 + rng.below(3)).map(|_| rng.below(w.next_id)).collect();
      w.delete(&ids);
    }
    let reader = w.reader();
    let ndocs = w.docs.len();
    let big = ndocs + 5;
    // (segment, doc) order of all live documents: match_all, default sort, every score is 1.0
    let all = qx::search(&reader, &qx::request(json!({"query": {"type":"match_all"}, "limit": big}))).expect("match_all");
    let docord: HashMap<u64, u64> = hits_of(&all).iter().enumerate().map(|(i, h)| (h.0, i as u64)).collect();
    let nconf = if thorough { 10 } else { 6 };
    for ci in 0..nconf {
      let fixed_case = wi == 0 && ci == 0;
      let (mut query, _) = qx::gen_query(&mut rng);
      let mut filter = qx::gen_filter(&mut rng);
      if fixed_case {
        query = json!({"type":"match_all"});
        filter = None;
      }
      let (sort, score_plan): (Vec<Value>, bool) = match if fixed_case { 7 } else { rng.below(8) } {
        0 => (vec![json!({"field":"_score","order":"desc"})], true),
        1 => (vec![json!({"field":"n"})], false),
        2 => (vec![json!({"field":"tag","order":"desc"}), json!({"field":"x"})], false),
        _ => (vec![], true),
      };
      let fast = qx::is_fast_path(&sort);
      let execution = *rng.pick(&["wand", "bmw", "bm25"][..]);
      let mut base = json!({"query": query, "sort": sort, "execution": execution});
      if let Some(f) = &filter {
        base["filter"] = f.clone();
      }
      let mut b = base.clone();
      b["limit"] = json!(big);
      std::fs::write(&progress, format!("world {wi} conf {ci} big {b}\n")).ok();
      let bres = qx::search(&reader, &qx::request(b.clone())).unwrap_or_else(|e| panic!("big request: {e}: {b}"));
      let bhits = hits_of(&bres);
      if bhits.is_empty() {
        bump(&mut dist, "empty_result_sets", 1);
        continue;
      }
      let key0 = |rank: usize, bits: u32, id: u64| -> u64 {
        if score_plan { score_key(bits, docord[&id]) } else { rank as u64 }
      };
      // ---- rescore query and its independent evaluation
      let word = *rng.pick(&qx::WORDS[..]);
      let tagv = *rng.pick(&qx::TAGS[..]);
      let boost = *rng.pick(&[0.5f64, 2.0, 3.5][..]);
      let inner = if rng.chance(2, 3) {
        json!({"type":"term","field":"body","value":word})
      } else {
        json!({"type":"constant_score","filter":{"KeywordEq":{"field":"tag","value":tagv}},"boost":boost})
      };
      let run_scores = |q: &Value| -> HashMap<u64, u32> {
        let r = json!({"query": q, "limit": big, "execution": "bm25"});
        match qx::search(&reader, &qx::request(r.clone())) {
          Ok(res) => hits_of(&res).into_iter().collect(),
          Err(e) => panic!("rescore query as main query failed: {e}: {r}"),
        }
      };
      let inner_scores = run_scores(&inner);
      let with_min = rng.chance(1, 2);
      let (rq, rq_scores) = if with_min {
        // min_score: an observed score (ties pass), a value between, or above everything
        let mut ss: Vec<f32> = inner_scores.values().map(|b| f32::from_bits(*b)).collect();
        ss.sort_by(|a, b| a.total_cmp(b));
        let m: f64 = if ss.is_empty() || rng.chance(1, 6) {
          100.0
        } else {
          let s = ss[rng.below(ss.len() as u64) as usize] as f64;
          if rng.chance(1, 2) { s } else { s * 1.0001 }
        };
        let q = json!({"type":"function_score","query": inner, "functions": [], "min_score": m});
        let sc = run_scores(&q);
        (q, sc)
      } else {
        (inner.clone(), inner_scores.clone())
      };
      let mut mode = *rng.pick(&["total", "multiply", "sum", "max", "min"][..]);
      // ---- limit, window, ranked candidates
      let mut limit = if rng.chance(1, 3) { bhits.len() + rng.below(3) as usize } else { 1 + rng.below(8) as usize };
      let mut wsize = rng.below((limit.min(bhits.len()) + 6) as u64) as usize;
      let (rq, rq_scores, inner_scores) = if fixed_case {
        mode = "multiply";
        limit = 3;
        wsize = 2;
        let inner = json!({"type":"term","field":"body","value":"wal"});
        let q = json!({"type":"function_score","query": inner, "functions": [], "min_score": 0.8});
        let sc = run_scores(&q);
        let is = run_scores(&inner);
        (q, sc, is)
      } else {
        (rq, rq_scores, inner_scores)
      };
      let top_k = limit + 1;
      let ranked: Vec<usize> = if fast {
        // every segment keeps its own top_k; the lists are appended and sorted
        let mut cnt: HashMap<usize, usize> = HashMap::new();
        (0..bhits.len())
          .filter(|&i| {
            let c = cnt.entry(w.batch_of(bhits[i].0)).or_insert(0);
            *c += 1;
            *c <= top_k
          })
          .collect()
      } else {
        (0..bhits.len().min(top_k)).collect()
      };
      let window = wsize.min(ranked.len());
      let mut outs: Vec<String> = Vec::new();
      let (mut n_keep, mut n_drop, mut n_new) = (0u64, 0u64, 0u64);
      for &i in ranked.iter().take(window) {
        let (id, bits) = bhits[i];
        if !inner_scores.contains_key(&id) {
          outs.push("Keep".into());
          n_keep += 1;
        } else if let Some(rb) = rq_scores.get(&id) {
          let c = combine(mode, f32::from_bits(bits), f32::from_bits(*rb)).to_bits();
          let k = if score_plan { score_key(c, docord[&id]) } else { i as u64 };
          outs.push(format!("(New {k} {c})"));
          n_new += 1;
        } else {
          outs.push("Drop".into());
          n_drop += 1;
        }
      }
      // ---- the request with rescore
      let mut r = base.clone();
      r["limit"] = json!(limit);
      r["rescore"] = json!({"window_size": wsize, "query": rq, "score_mode": mode});
      std::fs::write(&progress, format!("world {wi} conf {ci} rescore {r}\n")).ok();
      let res = match qx::search(&reader, &qx::request(r.clone())) {
        Ok(x) => x,
        Err(e) => panic!("rescore request failed: {e}: {r}"),
      };
      let rank_of: HashMap<u64, usize> = bhits.iter().enumerate().map(|(i, h)| (h.0, i)).collect();
      let observed: Vec<String> = hits_of(&res)
        .iter()
        .map(|(id, bits)| {
          let k = if score_plan {
            score_key(*bits, docord[id])
          } else {
            rank_of.get(id).map(|x| *x as u64).unwrap_or(999_999)
          };
          coq_hit(*id, k, *bits)
        })
        .collect();
      let ranked_l: Vec<String> =
        ranked.iter().map(|&i| coq_hit(bhits[i].0, key0(i, bhits[i].1, bhits[i].0), bhits[i].1)).collect();
      lits.push(format!(
        "{{| ranked := {}; outs := {}; limit := {}; window_size := {}; observed := {} |}}",
        coq::list(&ranked_l), coq::list(&outs), limit, wsize, coq::list(&observed)
      ));
      let nt = n_new + n_drop > 0 && window < ranked.len();
      bump(&mut dist, &format!("mode_{mode}"), 1);
      bump(&mut dist, if score_plan { "plan_score" } else { "plan_field" }, 1);
      bump(&mut dist, if fast { "fast_path" } else { "sort_path" }, 1);
      bump(&mut dist, "outcome_keep", n_keep);
      bump(&mut dist, "outcome_drop", n_drop);
      bump(&mut dist, "outcome_new", n_new);
      if n_drop > 0 && window < ranked.len() {
        bump(&mut dist, "cases_drop_with_tail", 1);
      }
      if wsize == 0 {
        bump(&mut dist, "window_0", 1);
      } else if wsize > limit {
        bump(&mut dist, "window_above_limit", 1);
      } else {
        bump(&mut dist, "window_1_to_limit", 1);
      }
      if limit >= bhits.len() {
        bump(&mut dist, "limit_covers_all", 1);
      }
      if fixed_case {
        assert!(n_drop == 1 && n_new == 1, "fixed scenario lost its shape: drop {n_drop} new {n_new}");
      }
      meta.push(json!({"fixed_scenario": fixed_case, "request": r, "matches": bhits.len(), "ranked": ranked.len(), "window": window,
        "keep": n_keep, "drop": n_drop, "new": n_new, "returned": res.hits.len(), "nt": nt}));
    }
  }
  std::fs::remove_file(&progress).ok();
  let files = write_cases(&args.out, "From SL Require Import C19.Model.", "case", "check_case", &lits, 60);
  write_json(&args.out, "cases.json", &json!({"files": files, "cases": meta, "distribution": dist}));
}
