//! C22 engine: the same random documents are indexed twice (random multi-commit layout and a
//! single commit); random completion requests (plain and fuzzy) run through the real
//! `IndexReader::search` on both; the per-segment dictionaries with document frequencies are
//! recomputed from the documents with the real index analyzer and the real segment layout.
use serde_json::{json, Value};
use slv::{coq, parse_args, write_cases, write_json, Rng};
use std::collections::{BTreeMap, BTreeSet, HashMap};

use searchlite_core::api::reader::IndexReader;
use searchlite_core::api::types::{SearchRequest, StorageType};
use searchlite_core::verif::manifest::FieldKind;
use searchlite_core::Schema;

const KW_VALUES: &[&str] = &["red", "Red", "reddish", "green", "grey", "gray", "blue", "black", "dark blue", "re"];

fn lev(a: &str, b: &str) -> usize {
  let a: Vec<char> = a.chars().collect();
  let b: Vec<char> = b.chars().collect();
  let mut prev: Vec<usize> = (0..=b.len()).collect();
  for i in 1..=a.len() {
    let mut cur = vec![i; b.len() + 1];
    for j in 1..=b.len() {
      let c = if a[i - 1] == b[j - 1] { 0 } else { 1 };
      cur[j] = (prev[j] + 1).min(cur[j - 1] + 1).min(prev[j - 1] + c);
    }
    prev = cur;
  }
  prev[b.len()]
}

fn vocabulary(rng: &mut Rng) -> Vec<String> {
  let mut v: Vec<String> = ["rust", "rusty", "rustic", "ruby", "run", "running", "runs", "search", "searching", "seat",
    "index", "indexes", "inner", "color", "colour", "colr", "the", "of", "café", "Rust", "SEARCH", "x1", "data", "date"]
    .iter()
    .map(|s| s.to_string())
    .collect();
  // a family of words sharing a prefix, large enough to reach the scan cap over several segments
  let stem = *rng.pick(&["ru", "se", "co"]);
  let n = rng.below(40) as usize;
  let letters = ['a', 'b', 'c', 'd', 'e', 's', 't'];
  for _ in 0..n {
    let mut w = stem.to_string();
    for _ in 0..(1 + rng.below(3)) {
      w.push(*rng.pick(&letters));
    }
    v.push(w);
  }
  v
}

/// per segment: term -> number of documents of the segment containing it
fn layout_of(
  reader: &IndexReader,
  schema: &Schema,
  docs: &HashMap<String, Value>,
  field: &str,
) -> Vec<BTreeMap<String, u64>> {
  let an = schema.build_analyzers().expect("analyzers");
  let mut out = Vec::new();
  for seg in reader.segments.iter() {
    let mut df: BTreeMap<String, u64> = BTreeMap::new();
    for ord in 0..seg.meta.doc_count {
      assert!(!seg.is_deleted(ord));
      let stored = seg.get_doc(ord).expect("stored");
      let uid = stored.get("uid").and_then(|v| v.as_str()).expect("uid").to_string();
      let src = docs.get(&uid).expect("known uid");
      let values: Vec<String> = match src.get(field) {
        None => vec![],
        Some(Value::String(s)) => vec![s.clone()],
        Some(Value::Array(a)) => a.iter().map(|v| v.as_str().unwrap().to_string()).collect(),
        _ => panic!("unexpected value"),
      };
      let mut terms: BTreeSet<String> = BTreeSet::new();
      match schema.field_kind(field) {
        FieldKind::Text => {
          let ia = an.index_analyzer(field).expect("index analyzer");
          for v in values.iter() {
            for t in ia.analyze(v) {
              terms.insert(t.text);
            }
          }
        }
        FieldKind::Keyword => {
          for v in values.iter() {
            terms.insert(v.to_ascii_lowercase());
          }
        }
        _ => {}
      }
      for t in terms {
        if !t.is_empty() {
          *df.entry(t).or_insert(0) += 1;
        }
      }
    }
    out.push(df);
  }
  out
}

fn main() {
  let args = parse_args();
  let mut rng = Rng::new(args.seed);
  let progress = args.out.join("progress.txt");
  let per_corpus = 40usize;
  let n_corpora = (args.n / per_corpus).max(1);
  let mut cases: Vec<String> = Vec::new();
  let mut meta: Vec<Value> = Vec::new();
  let mut dist: BTreeMap<String, u64> = BTreeMap::new();
  let mut bump = |d: &mut BTreeMap<String, u64>, k: &str| *d.entry(k.to_string()).or_insert(0) += 1;

  for ci in 0..n_corpora {
    let an_name = *rng.pick(&["default", "ws_lc", "unicode", "en"]);
    let schema: Schema = serde_json::from_value(json!({
      "doc_id_field": "_id",
      "analyzers": [
        {"name": "unicode", "tokenizer": "unicode", "filters": []},
        {"name": "ws_lc", "tokenizer": "whitespace", "filters": ["lowercase"]},
        {"name": "en", "tokenizer": "default", "filters": [{"stopwords": "en"}, {"stemmer": "english"}]}
      ],
      "text_fields": [{"name": "body", "analyzer": an_name, "stored": true, "indexed": true}],
      "keyword_fields": [{"name": "tag", "stored": true, "indexed": true, "fast": true},
                         {"name": "uid", "stored": true, "indexed": true, "fast": true}],
      "numeric_fields": [], "nested_fields": [], "vector_fields": []
    }))
    .expect("schema");
    bump(&mut dist, &format!("analyzer_{an_name}"));
    let an = schema.build_analyzers().expect("analyzers");
    let vocab = vocabulary(&mut rng);
    let n_docs = 8 + rng.below(70) as usize;
    let mut docs: Vec<Value> = Vec::new();
    let mut by_uid: HashMap<String, Value> = HashMap::new();
    for i in 0..n_docs {
      let nw = 1 + rng.below(8);
      let words: Vec<String> = (0..nw).map(|_| rng.pick(&vocab).clone()).collect();
      let mut d = json!({"_id": format!("d{i}"), "uid": format!("u{i}"), "body": words.join(" ")});
      match rng.below(4) {
        0 => {}
        1 => d["tag"] = json!([rng.pick(KW_VALUES).to_string(), rng.pick(KW_VALUES).to_string()]),
        _ => d["tag"] = json!(rng.pick(KW_VALUES).to_string()),
      }
      by_uid.insert(format!("u{i}"), d.clone());
      docs.push(d);
    }
    // layout 1: random commits; layout 2: one commit
    let n_commits = 1 + rng.below(6) as usize;
    let dir1 = slv::fixtures::scratch();
    let dir2 = slv::fixtures::scratch();
    let idx1 = searchlite_core::Index::create(dir1.path(), schema.clone(), slv::fixtures::opts(dir1.path(), StorageType::Filesystem)).expect("create");
    let idx2 = searchlite_core::Index::create(dir2.path(), schema.clone(), slv::fixtures::opts(dir2.path(), StorageType::Filesystem)).expect("create");
    {
      let mut w = idx1.writer().expect("writer");
      let mut cuts: Vec<usize> = (0..n_commits - 1).map(|_| rng.below(n_docs as u64) as usize).collect();
      cuts.sort();
      for (i, d) in docs.iter().enumerate() {
        std::fs::write(&progress, format!("corpus {ci} add {d}\n")).ok();
        w.add_document(&slv::fixtures::doc(d.clone())).expect("add");
        if cuts.contains(&i) {
          w.commit().expect("commit");
        }
      }
      w.commit().expect("commit");
      let mut w2 = idx2.writer().expect("writer");
      for d in docs.iter() {
        w2.add_document(&slv::fixtures::doc(d.clone())).expect("add");
      }
      w2.commit().expect("commit");
    }
    let r1 = idx1.reader().expect("reader");
    let r2 = idx2.reader().expect("reader");
    bump(&mut dist, &format!("layout1_segments_{}", r1.segments.len()));
    let mut layouts: HashMap<&str, (Vec<BTreeMap<String, u64>>, Vec<BTreeMap<String, u64>>)> = HashMap::new();
    for f in ["body", "tag"] {
      layouts.insert(f, (layout_of(&r1, &schema, &by_uid, f), layout_of(&r2, &schema, &by_uid, f)));
    }

    for _ in 0..per_corpus {
      let field = if rng.chance(1, 4) { "tag" } else { "body" };
      let (l1, l2) = layouts.get(field).unwrap();
      // ids in byte-wise lexicographic order of the terms
      let all_terms: BTreeSet<String> = l1.iter().chain(l2.iter()).flat_map(|m| m.keys().cloned()).collect();
      let ids: HashMap<String, u64> = all_terms.iter().enumerate().map(|(i, t)| (t.clone(), i as u64 + 1)).collect();
      let base = if field == "tag" { rng.pick(KW_VALUES).to_string() } else { rng.pick(&vocab).clone() };
      let size = *rng.pick(&[0u64, 1, 2, 3, 5, 5, 10, 20, 60]);
      let fuzzy = if rng.chance(1, 2) {
        Some((
          *rng.pick(&[0u64, 1, 1, 1, 2, 2, 2, 3]),
          rng.below(3),
          *rng.pick(&[0u64, 2, 3, 5, 50, 50, 50, 300]),
          1 + rng.below(3),
        ))
      } else {
        None
      };
      let cut = match rng.below(6) {
        0 => base.chars().count(),
        1 => 0,
        _ => (if fuzzy.is_some() { 2 } else { 1 }) + rng.below(3) as usize,
      };
      let mut prefix: String = base.chars().take(cut).collect();
      if rng.chance(1, 8) {
        prefix = prefix.to_uppercase();
      }
      if field == "body" && rng.chance(1, 8) {
        prefix = format!("{} {}", rng.pick(&vocab), prefix);
      }
      // completion_inputs
      let input: String = match schema.field_kind(field) {
        FieldKind::Text => {
          let toks = an.search_analyzer(field).expect("search analyzer").analyze(&prefix);
          toks.last().map(|t| t.text.clone()).unwrap_or_else(|| prefix.clone())
        }
        _ => prefix.to_ascii_lowercase(),
      };
      let in_len = input.chars().count();
      let (live, maxexp) = match fuzzy {
        None => (true, 0),
        Some((me, _pl, mx, ml)) => (in_len as u64 >= ml && mx > 0 && me.min(2) > 0, mx),
      };
      let dist_of = |t: &str| -> Option<u64> {
        match fuzzy {
          None => {
            if t.starts_with(&input) {
              Some(0)
            } else {
              None
            }
          }
          Some((me, pl, _, _)) => {
            let me = me.min(2) as usize;
            let p: String = input.chars().take((pl as usize).min(in_len)).collect();
            if !t.starts_with(&p) {
              return None;
            }
            let tl = t.chars().count();
            if tl.abs_diff(in_len) > me {
              return None;
            }
            let d = lev(&input, t);
            if d <= me {
              Some(d as u64)
            } else {
              None
            }
          }
        }
      };
      let lit_layout = |l: &Vec<BTreeMap<String, u64>>| -> (String, usize, bool) {
        let mut visits = 0usize;
        let mut has_d2 = false;
        let segs: Vec<String> = l
          .iter()
          .map(|m| {
            let es: Vec<String> = m
              .iter()
              .filter_map(|(t, df)| {
                dist_of(t).map(|d| {
                  visits += 1;
                  if d == 2 {
                    has_d2 = true;
                  }
                  format!("{{| e_term := {}; e_df := {}; e_dist := Some {} |}}", ids[t], df, d)
                })
              })
              .collect();
            coq::list(&es)
          })
          .collect();
        (coq::list(&segs), visits, has_d2)
      };
      let (ll1, v1, d2a) = lit_layout(l1);
      let (ll2, v2, _) = lit_layout(l2);
      let mut sj = json!({"type": "completion", "field": field, "prefix": prefix, "size": size});
      if let Some((me, pl, mx, ml)) = fuzzy {
        sj["fuzzy"] = json!({"max_edits": me, "prefix_length": pl, "max_expansions": mx, "min_length": ml});
      }
      let rj = json!({"query": {"type": "match_all"}, "limit": 1, "return_stored": false, "suggest": {"s": sj}});
      std::fs::write(&progress, format!("corpus {ci} suggest {rj}\n")).ok();
      let req: SearchRequest = serde_json::from_value(rj).expect("request");
      let mut obs_lits = Vec::new();
      let mut obs_json = Vec::new();
      let mut nonempty = false;
      for r in [&r1, &r2] {
        let res = r.search(&req).expect("search");
        let opts = &res.suggest.get("s").expect("suggest result").options;
        let lits: Vec<String> = opts
          .iter()
          .map(|o| {
            let id = ids.get(&o.text).copied().unwrap_or(999_999);
            let s6 = (o.score as f64 * 6.0).round() as u64;
            format!("{{| o_text := {id}; o_df := {}; o_score6 := {s6} |}}", o.doc_freq)
          })
          .collect();
        nonempty |= !opts.is_empty();
        obs_json.push(json!(opts.iter().map(|o| json!([o.text, o.doc_freq, o.score])).collect::<Vec<_>>()));
        obs_lits.push(coq::list(&lits));
      }
      let capv = match fuzzy {
        None => (size * 5).clamp(64, 256),
        Some((_, _, mx, _)) => mx.min(256).max(size),
      } as usize;
      let below = v1 <= capv && v2 <= capv;
      bump(&mut dist, if fuzzy.is_some() { "fuzzy" } else { "plain" });
      bump(&mut dist, if below { "below_cap_both_layouts" } else { "above_cap_some_layout" });
      if fuzzy.is_some() && !live {
        bump(&mut dist, "fuzzy_inactive");
      }
      if d2a {
        bump(&mut dist, "has_distance_2_candidate");
      }
      bump(&mut dist, if nonempty { "options_nonempty" } else { "options_empty" });
      bump(&mut dist, &format!("field_{field}"));
      let rlit = format!(
        "{{| r_size := {size}; r_fuzzy := {}; r_live := {}; r_maxexp := {maxexp} |}}",
        coq::b(fuzzy.is_some()),
        coq::b(live)
      );
      cases.push(format!("({rlit}, ({ll1}, {}), ({ll2}, {}))", obs_lits[0], obs_lits[1]));
      meta.push(json!({
        "corpus": ci, "analyzer": an_name, "request": sj, "analyzed_input": input, "visits": [v1, v2], "cap": capv,
        "segments": [r1.segments.len(), r2.segments.len()], "options": obs_json,
        "nt": nonempty && below,
      }));
    }
  }
  std::fs::remove_file(&progress).ok();
  let files = write_cases(
    &args.out,
    "From SL Require Import C22.Model.",
    "request * (layout * list opt) * (layout * list opt)",
    "check_case",
    &cases,
    100,
  );
  let mut d = serde_json::Map::new();
  for (k, v) in dist {
    d.insert(k, json!(v));
  }
  write_json(&args.out, "cases.json", &json!({"files": files, "cases": meta, "distribution": d}));
}
