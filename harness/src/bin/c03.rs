//! C03 engine: single-handle histories over a fault-injecting wrapper of InMemoryStorage.
//! A fault-free run counts the storage calls; then the same history is re-run once per chosen
//! fault position (every call index x {before, after} in quick for sampled histories; ordered
//! pairs in thorough), observing after every API call the result, the contents through a new
//! reader, and the contents through Index::open_with_storage on the same storage; finally a
//! healthy writer commits.
use searchlite_core::api::types::StorageType;
use searchlite_core::storage::Storage;
use searchlite_core::Index;
use slv::faulty::{FaultyStorage, Shared, When};
use slv::hist::{Api, IDS};
use slv::{coq, parse_args, write_cases, write_json, Rng};
use std::collections::BTreeMap;
use std::sync::Arc;

fn lit_contents(c: &[(String, i64)]) -> String {
  let lits: Vec<String> = c
    .iter()
    .map(|(id, v)| {
      let i = IDS.iter().position(|x| x == id).map(|x| x as u64).unwrap_or(999);
      coq::pair(&i.to_string(), &(if *v < 0 { 999_999 } else { *v as u64 }).to_string())
    })
    .collect();
  coq::list(&lits)
}

fn gen(rng: &mut Rng, len: usize) -> Vec<Api> {
  let mut out = Vec::new();
  let (mut live, mut call, mut ver) = (false, 0u64, 0u64);
  while out.len() < len {
    if !live {
      live = true;
      out.push(Api::NewWriter(1));
      continue;
    }
    let r = rng.below(100);
    let double_commit = rng.chance(1, 2);
    let next = if r < 42 {
      call += 1;
      ver += 1;
      Api::Add(1, call, rng.below(IDS.len() as u64), ver)
    } else if r < 58 {
      call += 1;
      Api::Del(1, call, rng.below(IDS.len() as u64))
    } else if r < 80 {
      // a commit is often followed at once by another one: a no-op in the fault-free run, but the
      // retry of the same handle (same queue, same cached state) when the first one was faulted
      Api::Commit(1)
    } else if r < 85 {
      Api::Rollback(1)
    } else if r < 92 {
      live = false;
      Api::Drop(1)
    } else {
      Api::Compact
    };
    // a commit is often followed at once by another one: a no-op in the fault-free run, but the
    // retry of the same handle (same queue, same cached state) when the first one was faulted
    let again = matches!(next, Api::Commit(_)) && double_commit;
    out.push(next);
    if again {
      out.push(Api::Commit(1));
    }
  }
  out
}

struct Run {
  events: Vec<String>,
  events_json: Vec<serde_json::Value>,
  final_lit: String,
  final_json: serde_json::Value,
  calls: usize,
  fired: Vec<(usize, String, When)>,
  log: Vec<(usize, String)>,
}

fn observe(ctl: &Shared, idx: &Index, storage: &Arc<FaultyStorage>, root: &std::path::Path) -> (Option<Vec<(String, i64)>>, Option<Vec<(String, i64)>>) {
  ctl.lock().enabled = false;
  let mem = std::panic::catch_unwind(std::panic::AssertUnwindSafe(|| slv::fixtures::contents(idx).ok())).unwrap_or(None);
  let disk = std::panic::catch_unwind(std::panic::AssertUnwindSafe(|| {
    let mut o = slv::fixtures::opts(root, StorageType::InMemory);
    o.create_if_missing = false;
    let st: Arc<dyn Storage> = storage.clone();
    let i2 = Index::open_with_storage(o, st).ok()?;
    slv::fixtures::contents(&i2).ok()
  }))
  .unwrap_or(None);
  ctl.lock().enabled = true;
  (mem, disk)
}

fn run(hist: &[Api], faults: &[(usize, When)]) -> Run {
  let root = std::path::PathBuf::from("/slv-mem-index");
  let (storage, ctl) = FaultyStorage::new(root.clone());
  let st: Arc<dyn Storage> = storage.clone();
  let idx = Index::create_with_storage(&root, slv::fixtures::basic_schema(), slv::fixtures::opts(&root, StorageType::InMemory), st).expect("create");
  {
    let mut c = ctl.lock();
    c.enabled = true;
    c.faults = faults.to_vec();
  }
  let mut writer: Option<searchlite_core::api::IndexWriter> = None;
  let mut events = Vec::new();
  let mut events_json = Vec::new();
  for a in hist {
    let fired_before = ctl.lock().fired.len();
    let res: Result<(), String> = std::panic::catch_unwind(std::panic::AssertUnwindSafe(|| -> Result<(), String> {
      let e = |x: anyhow::Error| x.to_string();
      match a {
        Api::NewWriter(_) => {
          writer = None;
          writer = Some(idx.writer().map_err(e)?);
        }
        Api::Add(_, _, id, v) => match writer.as_mut() {
          Some(w) => {
            w.add_document(&slv::hist::doc(*id, *v)).map_err(e)?;
          }
          None => return Err("no writer".into()),
        },
        Api::Del(_, _, id) => match writer.as_mut() {
          Some(w) => w.delete_document(IDS[*id as usize]).map_err(e)?,
          None => return Err("no writer".into()),
        },
        Api::Commit(_) => match writer.as_mut() {
          Some(w) => w.commit().map_err(e)?,
          None => return Err("no writer".into()),
        },
        Api::Rollback(_) => match writer.as_mut() {
          Some(w) => w.rollback().map_err(e)?,
          None => return Err("no writer".into()),
        },
        Api::Drop(_) => writer = None,
        Api::Compact => idx.compact().map_err(e)?,
        Api::Reopen => {}
      }
      Ok(())
    }))
    .unwrap_or_else(|_| Err("PANIC".into()));
    let fired_here = ctl.lock().fired.len() - fired_before;
    let no_writer = matches!(&res, Err(s) if s == "no writer");
    let (mem, disk) = observe(&ctl, &idx, &storage, &root);
    if no_writer {
      // a previous NewWriter failed under a fault: calls through the missing handle are not events
      continue;
    }
    let m = match &mem { Some(c) => format!("(Some {})", lit_contents(c)), None => "None".into() };
    let d = match &disk { Some(c) => format!("(Some {})", lit_contents(c)), None => "None".into() };
    events.push(format!("{{| o_call := {}; o_ok := {}; o_mem := {}; o_disk := {}; o_faults := {} |}}", a.coq(), coq::b(res.is_ok()), m, d, fired_here));
    events_json.push(serde_json::json!({"call": a.coq(), "result": res.clone().err(), "mem": mem, "disk": disk}));
  }
  let (calls, fired, log) = {
    let c = ctl.lock();
    (c.count, c.fired.clone(), c.log.clone())
  };
  ctl.lock().enabled = false;
  drop(writer);
  // final healthy writer(); commit(): what the running index shows and what a reopen shows
  let fin: (Option<Vec<(String, i64)>>, Option<Vec<(String, i64)>>) = std::panic::catch_unwind(std::panic::AssertUnwindSafe(|| {
    let committed = (|| {
      let mut w = idx.writer().ok()?;
      w.commit().ok()?;
      Some(())
    })();
    if committed.is_none() {
      return (None, None);
    }
    let a = slv::fixtures::contents(&idx).ok();
    let mut o = slv::fixtures::opts(&root, StorageType::InMemory);
    o.create_if_missing = false;
    let st: Arc<dyn Storage> = storage.clone();
    let b = Index::open_with_storage(o, st).ok().and_then(|i2| slv::fixtures::contents(&i2).ok());
    (a, b)
  }))
  .unwrap_or((None, None));
  let olit = |x: &Option<Vec<(String, i64)>>| match x { Some(c) => format!("(Some {})", lit_contents(c)), None => "None".into() };
  let final_lit = format!("({}, {})", olit(&fin.0), olit(&fin.1));
  Run { events, events_json, final_lit, final_json: serde_json::json!({"running": fin.0, "reopened": fin.1}), calls, fired, log }
}

fn main() {
  let args = parse_args();
  let mut rng = Rng::new(args.seed);
  let thorough = args.tier == "thorough";
  std::panic::set_hook(Box::new(|_| {}));
  let mut cases = Vec::new();
  let mut meta = Vec::new();
  let mut labels: BTreeMap<String, usize> = BTreeMap::new();
  let (mut n_hist, mut n_single, mut n_double, mut n_fired_err, mut n_fired_ok) = (0usize, 0usize, 0usize, 0usize, 0usize);
  for _ in 0..args.n {
    n_hist += 1;
    let len = if thorough { 10 + rng.below(24) as usize } else { 10 + rng.below(14) as usize };
    let hist = gen(&mut rng, len);
    let base = run(&hist, &[]);
    let n = base.calls;
    let mut plans: Vec<Vec<(usize, When)>> = Vec::new();
    plans.push(vec![]);
    for i in 0..n {
      plans.push(vec![(i, When::Before)]);
      plans.push(vec![(i, When::After)]);
    }
    let npairs = if thorough { 4 * n } else { n / 2 };
    for _ in 0..npairs {
      let i = rng.below(n.max(1) as u64) as usize;
      let j = i + 1 + rng.below(6) as usize;
      let w1 = if rng.chance(1, 2) { When::Before } else { When::After };
      let w2 = if rng.chance(1, 2) { When::Before } else { When::After };
      plans.push(vec![(i, w1), (j, w2)]);
    }
    for plan in plans {
      let r = run(&hist, &plan);
      match plan.len() {
        1 => n_single += 1,
        2 => n_double += 1,
        _ => {}
      }
      for (_, l, _) in r.fired.iter() {
        *labels.entry(l.clone()).or_insert(0) += 1;
      }
      let any_err = r.events_json.iter().any(|e| !e["result"].is_null());
      if !r.fired.is_empty() {
        if any_err { n_fired_err += 1 } else { n_fired_ok += 1 }
      }
      cases.push(format!("({}, {}, {})", r.fired.len(), coq::list(&r.events), r.final_lit));
      let fired: Vec<String> = r.fired.iter().map(|(i, l, w)| format!("#{i} {l} {w:?}")).collect();
      meta.push(serde_json::json!({"history": hist.iter().map(|a| a.coq()).collect::<Vec<_>>(),
        "faults": plan.iter().map(|(i, w)| format!("{i}:{w:?}")).collect::<Vec<_>>(), "fired": fired,
        "storage_calls": r.log.len(),
        "calls_around_faults": r.fired.iter().map(|(i, _, _)| r.log.iter().filter(|(k, _)| *k + 4 >= *i && *k <= *i + 8).map(|(k, l)| format!("#{k} {l}")).collect::<Vec<_>>()).collect::<Vec<_>>(),
        "events": r.events_json, "final": r.final_json, "nt": !r.fired.is_empty()}));
    }
  }
  let files = write_cases(&args.out, "From SL Require Import Core.Model C02.Model C03.Model C03.History.", "case03", "check_case_h", &cases, 150);
  write_json(&args.out, "cases.json", &serde_json::json!({"files": files, "cases": meta,
    "distribution": {"histories": n_hist, "single_fault_runs": n_single, "double_fault_runs": n_double,
      "runs_where_a_faulted_call_returned_err": n_fired_err, "runs_where_all_calls_returned_ok_despite_fault": n_fired_ok,
      "faulted_storage_call_kinds": labels}}));
}
