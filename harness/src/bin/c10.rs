//! C10 engine: random corpora over 1-4 segments (optional tombstones), random scored query trees
//! (term / query_string / multi_match / bool / dis_max / constant_score / function_score with
//! boosts), random sort plans of 0-3 keys over _score / keyword / i64 / f64 fields (single- and
//! multi-valued, missing values, both directions).  For every (query, filter, sort) the matching
//! set is taken from one exhaustive request; the per-document sort values, term statistics
//! (tf, df, field length, avgdl, live docs) are read from the segments; the real
//! `IndexReader::search` answers for several limits are written as cases for C10/Model.v.
use searchlite_core::api::types::StorageType;
use serde_json::{json, Value};
use slv::qx;
use slv::sortworld::{self as sw, QGen, SWorld};
use slv::{coq, parse_args, write_cases, write_json, Rng};
use std::collections::BTreeMap;

fn main() {
  let args = parse_args();
  let mut rng = Rng::new(args.seed);
  let thorough = args.tier == "thorough";
  let progress = args.out.join("progress.txt");
  let mut cases: Vec<String> = Vec::new();
  let mut meta: Vec<Value> = Vec::new();
  let mut dist: BTreeMap<String, u64> = BTreeMap::new();
  let bump = |dist: &mut BTreeMap<String, u64>, k: &str, n: u64| {
    *dist.entry(k.to_string()).or_insert(0) += n;
  };
  let k1 = sw::q_of_f32(1.2);
  let b = sw::q_of_f32(0.75);

  for wi in 0..args.n {
    let nseg = 1 + rng.below(4) as usize;
    let storage = if rng.chance(1, 2) { StorageType::InMemory } else { StorageType::Filesystem };
    let max_docs = if rng.chance(1, 4) { 30 } else if thorough { 14 } else { 10 };
    let mut w = SWorld::build(&mut rng, nseg, 3, max_docs, storage);
    if rng.chance(1, 3) {
      let k = 1 + rng.below(3);
      let ids: Vec<u64> = (0..k).map(|_| rng.below(w.next_id)).collect();
      w.delete(&ids);
      bump(&mut dist, "worlds_with_deletes", 1);
    }
    bump(&mut dist, &format!("worlds_segments_{nseg}"), 1);
    let reader = w.reader();
    let table = sw::doc_table(&reader);
    let ndocs = table.len();
    let nconf = if thorough { 8 } else { 5 };
    for ci in 0..nconf {
      let mut g = QGen::new(&mut rng);
      let depth = rng.below(3) as usize;
      let q = g.node(&mut rng, depth);
      let filter = if rng.chance(1, 4) { Some(sw::filter_json(rng.below(sw::NFILTERS as u64) as usize)) } else { None };
      let sort = qx::gen_sort(&mut rng);
      let fast = qx::is_fast_path(&sort);
      let mut keys = Vec::new();
      q.keys(&mut keys);
      // bmw only where a collector keeps the executor exhaustive (known C11 finding on the fast path)
      // on the score fast path no collector is attached and WAND prunes by term upper bounds, which a
      // score-modifying node (function_score, constant_score) can exceed: pruning then loses hits
      // (C09's business, reported there) — such requests run exhaustively here
      let execution = if fast && q.has_custom() {
        "bm25"
      } else if fast {
        *rng.pick(&["wand", "bm25"][..])
      } else {
        *rng.pick(&["wand", "bmw", "bm25"][..])
      };
      let mut base = json!({"query": q.json(), "sort": sort, "execution": execution});
      if let Some(f) = &filter {
        base["filter"] = f.clone();
      }
      if rng.chance(1, 3) {
        base["bmw_block_size"] = json!(1 + rng.below(4));
      }
      // the matching set: one exhaustive request in default order
      let mut all = json!({"query": q.json(), "execution": "bm25", "limit": ndocs + 5});
      if let Some(f) = &filter {
        all["filter"] = f.clone();
      }
      std::fs::write(&progress, format!("world {wi} conf {ci} all {all}\n")).ok();
      let allres = match qx::search(&reader, &qx::request(all.clone())) {
        Ok(r) => r,
        Err(e) if e.contains("Inconsistent leaf") => {
          bump(&mut dist, "skipped_debug_assert", 1);
          continue;
        }
        Err(e) => panic!("exhaustive request failed: {e} for {all}"),
      };
      let mut ids: Vec<u64> = allres.hits.iter().map(|h| qx::parse_id(&h.doc_id)).collect();
      ids.sort();
      let postings = sw::postings_of(&reader, &keys);
      let segs = sw::segstats(&reader, &keys, &postings);
      let sort_fields: Vec<String> = sort.iter().map(|s| s["field"].as_str().unwrap().to_string()).collect();
      let mut docs = Vec::new();
      let (mut n_missing, mut n_multi) = (0u64, 0u64);
      for id in &ids {
        let info = table.iter().find(|d| d.id == *id && !d.deleted).expect("hit is a live document");
        let vals: Vec<String> = sort_fields.iter().map(|f| sw::rvals(&reader, info.seg, info.doc, f)).collect();
        for v in &vals {
          if v.ends_with(" [])") {
            n_missing += 1;
          }
          if v.contains(';') {
            n_multi += 1;
          }
        }
        docs.push(format!(
          "{{| m_id := {}; m_seg := {}; m_doc := {}; m_vals := {}; m_sdoc := {} |}}",
          id,
          info.seg,
          info.doc,
          coq::list(&vals),
          sw::sdoc(&reader, info.seg, info.doc, &keys, &postings)
        ));
      }
      bump(&mut dist, "missing_sort_values", n_missing);
      bump(&mut dist, "multi_valued_sort_values", n_multi);
      bump(&mut dist, if fast { "plan_score_fast_path" } else { "plan_sort_path" }, 1);
      bump(&mut dist, &format!("execution_{execution}"), 1);
      bump(&mut dist, &format!("sort_keys_{}", sort.len()), 1);
      for s in &sort {
        bump(&mut dist, &format!("sort_field_{}_{}", s["field"].as_str().unwrap(), s.get("order").and_then(|o| o.as_str()).unwrap_or("default")), 1);
      }
      if filter.is_some() {
        bump(&mut dist, "with_root_filter", 1);
      }
      let match_only = !sw::sort_uses_score(&sort) && !q.has_custom();
      if match_only {
        bump(&mut dist, "match_only_requests", 1);
      }
      let mut kc = BTreeMap::new();
      q.kind_counts(&mut kc);
      for (k, v) in kc {
        bump(&mut dist, &k, v);
      }
      if ids.is_empty() {
        bump(&mut dist, "empty_result_sets", 1);
      }
      let mut limits = vec![ndocs + 5, 1 + rng.below(6) as usize];
      if thorough {
        limits.push(1 + rng.below(12) as usize);
      }
      for limit in limits {
        let mut r = base.clone();
        r["limit"] = json!(limit);
        std::fs::write(&progress, format!("world {wi} conf {ci} req {r}\n")).ok();
        let res = match qx::search(&reader, &qx::request(r.clone())) {
          Ok(res) => res,
          Err(e) => panic!("request failed: {e} for {r}"),
        };
        let hits: Vec<String> =
          res.hits.iter().map(|h| format!("({}, {})", qx::parse_id(&h.doc_id), h.score.to_bits())).collect();
        let mut ties = 0u64;
        for p in res.hits.windows(2) {
          if p[0].score.to_bits() == p[1].score.to_bits() {
            ties += 1;
          }
        }
        bump(&mut dist, "adjacent_equal_score_pairs", ties);
        bump(&mut dist, "hits_total", res.hits.len() as u64);
        cases.push(format!(
          "{{| cs_plan := {}; cs_limit := {}%nat; cs_k1 := {}; cs_b := {}; cs_segs := {}; cs_query := {}; \
           cs_force_score := false; cs_docs := {}; cs_hits := {} |}}",
          sw::plan_coq(&sort),
          limit,
          k1,
          b,
          segs,
          q.coq(&keys),
          coq::list(&docs),
          coq::list(&hits)
        ));
        let scores: Vec<Value> = res.hits.iter().map(|h| json!([h.doc_id, h.score])).collect();
        meta.push(json!({
          "world": wi, "conf": ci, "segments": nseg, "request": r, "matching": ids.len(),
          "hits": scores, "match_only": match_only, "nt": res.hits.len() >= 2
        }));
      }
    }
  }
  let files = write_cases(&args.out, "From Coq Require Import QArith.\nFrom SL Require Import C10.Model.\n", "case", "check_case", &cases, 10);
  write_json(&args.out, "cases.json", &json!({"files": files, "cases": meta, "distribution": dist}));
}
