//! C13 engine: one (corpus, query, filter, aggs, suggest) "world" evaluated under many paging /
//! sort / execution variations of the real `IndexReader::search`; for every variation the
//! documents streamed to the aggregation collector (hook `verif::agg_trace`), the totals and the
//! aggregation / suggest JSON are recorded and written as cases for C13/Model.v.
use searchlite_core::api::reader::SearchResult;
use searchlite_core::verif::agg_trace;
use serde_json::{json, Value};
use slv::aggworld::*;
use slv::{coq, parse_args, write_cases, write_json, Rng};
use std::collections::{BTreeMap, BTreeSet};

#[derive(Clone, Debug)]
struct Sort {
  name: &'static str,
  spec: Value,
  fast: bool,
  uses_score: bool,
}

fn sorts() -> Vec<Sort> {
  vec![
    Sort { name: "default", spec: json!([]), fast: true, uses_score: true },
    Sort { name: "score_desc", spec: json!([{"field":"_score","order":"desc"}]), fast: true, uses_score: true },
    Sort { name: "score_asc", spec: json!([{"field":"_score","order":"asc"}]), fast: false, uses_score: true },
    Sort { name: "n_asc", spec: json!([{"field":"n","order":"asc"}]), fast: false, uses_score: false },
    Sort { name: "n_desc_score", spec: json!([{"field":"n","order":"desc"},{"field":"_score"}]), fast: false, uses_score: true },
    Sort { name: "tag_asc", spec: json!([{"field":"tag","order":"asc"}]), fast: false, uses_score: false },
    Sort { name: "price_desc", spec: json!([{"field":"price","order":"desc"}]), fast: false, uses_score: false },
  ]
}

#[derive(Clone, Debug)]
struct Query {
  name: &'static str,
  q: Value,
  scan: bool,
  hook: bool,
  scored_terms: usize,
}

fn gen_query(rng: &mut Rng) -> Query {
  let rare = |rng: &mut Rng| RARE[(rng.below(8) * rng.below(8) / 8) as usize];
  match *rng.pick(&[0u64, 1, 2, 2, 3, 3, 4, 5, 5, 6, 7, 8][..]) {
    0 => Query { name: "match_all", q: json!({"type":"match_all"}), scan: true, hook: false, scored_terms: 0 },
    1 => Query {
      name: "term",
      q: json!({"type":"term","field":"body","value": *rng.pick(&COMMON[..])}),
      scan: false,
      hook: false,
      scored_terms: 1,
    },
    2 => Query { name: "string2", q: json!(format!("{} {}", rare(rng), rng.pick(&COMMON[..]))), scan: false, hook: false, scored_terms: 2 },
    3 => Query {
      name: "string3",
      // distinct terms: a repeated term trips a debug_assert of the query planner (leaf ids)
      q: {
        let k = rng.below(4) as usize;
        json!(format!("{} {} {}", rare(rng), COMMON[k], COMMON[(k + 1 + rng.below(3) as usize) % 4]))
      },
      scan: false,
      hook: false,
      scored_terms: 3,
    },
    4 => Query {
      name: "bool_must_not",
      q: json!({"type":"bool","must":[{"type":"term","field":"body","value": *rng.pick(&COMMON[..])}],
                "must_not":[{"type":"term","field":"body","value": rare(rng)}]}),
      scan: false,
      hook: false,
      scored_terms: 1,
    },
    5 => Query {
      name: "bool_should_filter",
      q: json!({"type":"bool","should":[{"type":"term","field":"body","value": *rng.pick(&COMMON[..])},
                                          {"type":"term","field":"body","value": rare(rng)}],
                "filter":[gen_filter(rng, 0)]}),
      scan: false,
      hook: false,
      scored_terms: 2,
    },
    6 => Query { name: "prefix", q: json!({"type":"prefix","field":"body","value": *rng.pick(&["se","al","in","ga","c"][..])}), scan: false, hook: false, scored_terms: 2 },
    7 => Query {
      name: "function_score",
      q: json!({"type":"function_score",
                "query":{"type":"term","field":"body","value": *rng.pick(&COMMON[..])},
                "functions":[{"type":"field_value_factor","field":"n","factor":1.0,"missing":1.0}],
                "boost_mode":"sum"}),
      scan: false,
      hook: true,
      scored_terms: 1,
    },
    _ => Query {
      name: "constant_score",
      q: json!({"type":"constant_score","filter": gen_filter(rng, 1), "boost": 2.0}),
      scan: true,
      hook: false,
      scored_terms: 0,
    },
  }
}

#[derive(Clone, Debug)]
struct Var {
  sort: Sort,
  exec: &'static str,
  bmw_block: Option<u64>,
  explain: bool,
  profile: bool,
  rescore: Option<u64>,
  return_hits: bool,
  limit: u64,
  candidate: Option<u64>,
  cursor: Option<(String, u64, u64)>, // raw, rank of its key, returned so far
  walk_page: u64,
}

struct WorldSpec {
  query: Query,
  filter: Option<Value>,
  aggs: Value,
  suggest: Value,
}

fn req_json(w: &WorldSpec, v: &Var, with_aggs: bool) -> Value {
  let mut m = json!({
    "query": w.query.q, "limit": v.limit, "return_hits": v.return_hits, "sort": v.sort.spec,
    "execution": v.exec, "return_stored": false, "explain": v.explain, "profile": v.profile,
  });
  if let Some(f) = &w.filter {
    m["filter"] = f.clone();
  }
  if let Some(b) = v.bmw_block {
    m["bmw_block_size"] = json!(b);
  }
  if let Some(c) = v.candidate {
    m["candidate_size"] = json!(c);
  }
  if let Some((raw, _, _)) = &v.cursor {
    m["cursor"] = json!(raw);
  }
  if let Some(win) = v.rescore {
    m["rescore"] = json!({"window_size": win, "query": {"type":"term","field":"body","value":"rust"}, "score_mode":"total"});
  }
  if with_aggs {
    m["aggs"] = w.aggs.clone();
    m["suggest"] = w.suggest.clone();
  }
  m
}

fn err_code(e: &str) -> u64 {
  if e.contains("must set limit > 0") {
    1
  } else if e.contains("cursor is not supported when return_hits is false") {
    2
  } else if e.contains("stale or invalid cursor") {
    3
  } else {
    9
  }
}

/// Removes the responses of top_hits aggregations (objects tagged `"type":"top_hits"`).
fn drop_top_hits(v: &Value) -> Value {
  match v {
    Value::Object(m) => {
      if m.get("type").and_then(|t| t.as_str()) == Some("top_hits") {
        return json!({"type":"top_hits"});
      }
      Value::Object(m.iter().map(|(k, x)| (k.clone(), drop_top_hits(x))).collect())
    }
    Value::Array(a) => Value::Array(a.iter().map(drop_top_hits).collect()),
    _ => v.clone(),
  }
}

fn hit_ids(r: &SearchResult) -> Vec<usize> {
  r.hits.iter().map(|h| idx_of(&h.doc_id).expect("hit id")).collect()
}

fn main() {
  let args = parse_args();
  let mut rng = Rng::new(args.seed);
  let thorough = args.tier == "thorough";
  let nworlds = args.n;
  let all_sorts = sorts();
  let mut cases: Vec<String> = Vec::new();
  let mut meta: Vec<Value> = Vec::new();
  let mut dist: BTreeMap<String, u64> = BTreeMap::new();
  let mut bump = |dist: &mut BTreeMap<String, u64>, k: &str| *dist.entry(k.to_string()).or_insert(0) += 1;
  let mut agg_stats = AggStats::default();
  let progress = args.out.join("progress.txt");

  for wi in 0..nworlds {
    let mut r = rng.fork();
    let ndocs = (10 + r.below(if thorough { 50 } else { 26 })) as usize;
    let docs: Vec<DocSpec> = (0..ndocs).map(|i| gen_doc(&mut r, i)).collect();
    let nseg = 1 + r.below(4) as usize;
    let deleted: Vec<usize> = (0..ndocs).filter(|_| r.chance(1, 9)).collect();
    let layout = gen_layout(&mut r, ndocs, nseg, &deleted);
    let world = build(&docs, &layout);
    let reader = world.index.reader().expect("reader");
    let with_top_hits = r.chance(1, 3);
    let mut st = AggStats::default();
    // with a top_hits (which ranks by score) keep to queries whose scores cannot depend on the f32
    // summation order of an execution strategy
    let mut query = gen_query(&mut r);
    while with_top_hits && query.scored_terms > 2 {
      query = gen_query(&mut r);
    }
    let mut aggs = if r.chance(1, 12) { json!({}) } else { gen_aggs(&mut r, 2, with_top_hits, &mut st) };
    if with_top_hits && !st.top_hits {
      // the tree came out without one: add a top-level top_hits, ordered by score, by fields
      // only, or by both (its hits report their scores whatever it is ordered by)
      let sort = match r.below(4) {
        0 => json!([]),
        1 => json!([{"field": "n", "order": "desc"}]),
        2 => json!([{"field": "tag", "order": "asc"}, {"field": "n", "order": "asc"}]),
        _ => json!([{"field": "_score"}, {"field": "tag", "order": "asc"}]),
      };
      aggs["th"] = json!({"type": "top_hits", "size": 1 + r.below(3), "sort": sort});
      st.top_hits = true;
    }
    let spec = WorldSpec {
      query,
      filter: if r.chance(1, 2) { Some(gen_filter(&mut r, 1)) } else { None },
      aggs,
      suggest: if r.chance(1, 2) {
        json!({"sg": {"type":"completion","field":"body","prefix": *r.pick(&["se","al","ru","in","g"][..]), "size": 3}})
      } else {
        json!({})
      },
    };
    for (k, n) in st.kinds.iter() {
      *agg_stats.kinds.entry(k.clone()).or_insert(0) += n;
    }
    agg_stats.max_depth = agg_stats.max_depth.max(st.max_depth);
    let has_aggs = spec.aggs.as_object().map(|m| !m.is_empty()).unwrap_or(false);
    bump(&mut dist, &format!("query:{}", spec.query.name));
    bump(&mut dist, &format!("segments:{}", layout.batches.len()));
    if spec.filter.is_some() {
      bump(&mut dist, "with_filter");
    }
    if st.top_hits {
      bump(&mut dist, "worlds_with_top_hits");
    }
    if !has_aggs {
      bump(&mut dist, "worlds_without_aggs");
    }
    let big = (ndocs + 5) as u64;
    let base_var = Var {
      sort: all_sorts[0].clone(),
      exec: "wand",
      bmw_block: None,
      explain: false,
      profile: false,
      rescore: None,
      return_hits: true,
      limit: 10,
      candidate: None,
      cursor: None,
      walk_page: 0,
    };
    // reference runs: which documents match the query / pass the filter (unpaged, no aggregations)
    let ref_var = Var { limit: big, ..base_var.clone() };
    let q_only = WorldSpec { query: spec.query.clone(), filter: None, aggs: json!({}), suggest: json!({}) };
    let f_only = WorldSpec {
      query: Query { name: "match_all", q: json!({"type":"match_all"}), scan: true, hook: false, scored_terms: 0 },
      filter: spec.filter.clone(),
      aggs: json!({}),
      suggest: json!({}),
    };
    let matched: BTreeSet<usize> =
      hit_ids(&reader.search(&request(req_json(&q_only, &ref_var, false))).expect("reference query run")).into_iter().collect();
    let passing: BTreeSet<usize> =
      hit_ids(&reader.search(&request(req_json(&f_only, &ref_var, false))).expect("reference filter run")).into_iter().collect();
    let both: BTreeSet<usize> =
      hit_ids(&reader.search(&request(req_json(&spec, &ref_var, false))).expect("reference run")).into_iter().collect();
    assert!(
      both == matched.intersection(&passing).cloned().collect::<BTreeSet<_>>(),
      "reference runs disagree: query+filter is not the intersection (world {wi})"
    );
    bump(&mut dist, &format!("matched:{}", match both.len() { 0 => "0", 1..=3 => "1-3", 4..=10 => "4-10", _ => "11+" }));

    // baseline response
    let base = reader.search(&request(req_json(&spec, &base_var, true))).expect("baseline run");
    let base_aggs = serde_json::to_value(&base.aggregations).unwrap();
    let base_sugg = serde_json::to_value(&base.suggest).unwrap();

    // variations
    let mut vars: Vec<Var> = vec![base_var.clone()];
    let rand_var = |r: &mut Rng| -> Var {
      let sort = r.pick(&all_sorts[..]).clone();
      let exec = *r.pick(&["bm25", "wand", "bmw"][..]);
      let limit = *r.pick(&[1u64, 1, 2, 3, 5, 10, 50][..]);
      Var {
        sort,
        exec,
        bmw_block: if exec == "bmw" && r.chance(1, 2) { Some(1 + r.below(4)) } else { None },
        explain: r.chance(1, 4),
        profile: r.chance(1, 4),
        rescore: if r.chance(1, 4) { Some(1 + r.below(5)) } else { None },
        return_hits: !r.chance(1, 5),
        limit,
        candidate: if r.chance(1, 5) { Some(limit + r.below(6)) } else { None },
        cursor: None,
        walk_page: 0,
      }
    };
    let nrand = if thorough { 8 } else { 5 };
    for _ in 0..nrand {
      vars.push(rand_var(&mut r));
    }
    if st.top_hits {
      // a field-sorted request without and with explain: whether the query is scored must not
      // show in the aggregation part
      for explain in [false, true] {
        let mut v = base_var.clone();
        v.sort = all_sorts[3].clone();
        v.explain = explain;
        vars.push(v);
      }
    }
    // small pages on the score fast path: where WAND / block-max pruning would bite if it were
    // not disabled by the attached collector
    if spec.query.scored_terms >= 2 {
      for (exec, block) in [("wand", None), ("bmw", Some(2u64))] {
        let mut v = base_var.clone();
        v.exec = exec;
        v.bmw_block = block;
        v.limit = 1;
        v.sort = all_sorts[(r.below(2)) as usize].clone();
        vars.push(v);
      }
    }
    // a degenerate request now and then
    if r.chance(1, 4) {
      let mut v = rand_var(&mut r);
      v.limit = 0;
      vars.push(v);
    }
    // cursor walks (only when the score of a document cannot depend on summation order)
    let nwalks = if spec.query.scored_terms <= 2 { if thorough { 3 } else { 2 } } else { 0 };
    let mut walk_starts: Vec<Var> = Vec::new();
    for _ in 0..nwalks {
      let mut v = rand_var(&mut r);
      v.return_hits = true;
      v.rescore = None;
      v.limit = *r.pick(&[1u64, 1, 2, 3][..]);
      v.candidate = None;
      walk_starts.push(v);
    }

    let mut run_var = |v: &Var, dist: &mut BTreeMap<String, u64>, cases: &mut Vec<String>, meta: &mut Vec<Value>| -> Option<(SearchResult, BTreeMap<usize, u64>)> {
      // rank of every matched document under this variation's sort and execution
      let rank_var = Var { limit: big, cursor: None, rescore: None, return_hits: true, candidate: None, profile: false, walk_page: 0, ..v.clone() };
      let order = hit_ids(&reader.search(&request(req_json(&spec, &rank_var, false))).expect("rank run"));
      let rank: BTreeMap<usize, u64> = order.iter().enumerate().map(|(p, d)| (*d, p as u64 + 1)).collect();
      std::fs::write(&progress, format!("world {wi} variation {:?}\n", v)).ok();
      agg_trace::start();
      let res = reader.search(&request(req_json(&spec, v, true)));
      let trace = agg_trace::take();
      let nsegs = layout.batches.len();
      let mut seen: Vec<Vec<u64>> = vec![Vec::new(); nsegs];
      for (seg, _doc, ext) in trace.iter() {
        let i = idx_of(ext).expect("traced id") as u64;
        if (*seg as usize) < nsegs {
          seen[*seg as usize].push(i);
        } else {
          seen.push(vec![i]);
        }
      }
      let (err, total, nhits, more, agg_cls, sugg_cls, out) = match res {
        Err(e) => (err_code(&format!("{e:#}")), 0, 0, false, 0, 0, None),
        Ok(sr) => {
          let a = serde_json::to_value(&sr.aggregations).unwrap();
          let s = serde_json::to_value(&sr.suggest).unwrap();
          let agg_cls = if json_close(&a, &base_aggs, 1e-6) {
            0
          } else if json_close(&drop_top_hits(&a), &drop_top_hits(&base_aggs), 1e-9) {
            2
          } else {
            1
          };
          let sugg_cls = if json_close(&s, &base_sugg, 1e-6) { 0 } else { 1 };
          (0, sr.total_hits_estimate, sr.hits.len() as u64, sr.next_cursor.is_some(), agg_cls, sugg_cls, Some(sr))
        }
      };
      // the index as the model sees it
      let mut prune_rng = Rng::new(wi as u64 * 7919 + cases.len() as u64);
      let idx_lit: Vec<String> = layout
        .batches
        .iter()
        .map(|b| {
          let mut b = b.clone();
          b.sort();
          let ds: Vec<String> = b
            .iter()
            .map(|&i| {
              let del = layout.deleted.contains(&i);
              format!(
                "{{| d_id := {}; d_deleted := {}; d_match := {}; d_pass := {}; d_key := {}; d_prunable := {} |}}",
                i,
                coq::b(del),
                coq::b(del || matched.contains(&i)),
                coq::b(del || passing.contains(&i)),
                rank.get(&i).cloned().unwrap_or(0),
                coq::b(has_aggs && prune_rng.chance(1, 2))
              )
            })
            .collect();
          coq::list(&ds)
        })
        .collect();
      let cursor_lit = match &v.cursor {
        Some((_, k, n)) => format!("(Some ({k}, {n}))"),
        None => "None".to_string(),
      };
      let exec_lit = match v.exec {
        "bm25" => "Bm25",
        "wand" => "Wand",
        _ => "Bmw",
      };
      let req_lit = format!(
        "{{| r_query := {{| q_scan := {}; q_hook := {} |}}; r_filter := tt; r_sort := {{| s_fast := {}; s_uses_score := {} |}}; \
         r_cursor := {}; r_limit := {}; r_candidate := {}; r_return_hits := {}; r_exec := {}; r_explain := {}; r_profile := {}; \
         r_rescore := {}; r_aggs := {}; r_aggs_score := {}; r_suggest := {} |}}",
        coq::b(spec.query.scan),
        coq::b(spec.query.hook),
        coq::b(v.sort.fast),
        coq::b(v.sort.uses_score),
        cursor_lit,
        v.limit,
        coq::opt(v.candidate.map(|c| c.to_string())),
        coq::b(v.return_hits),
        exec_lit,
        coq::b(v.explain),
        coq::b(v.profile),
        coq::opt(v.rescore.map(|c| c.to_string())),
        coq::b(has_aggs),
        coq::b(st.top_hits),
        coq::b(spec.suggest.as_object().map(|m| !m.is_empty()).unwrap_or(false))
      );
      let seen_lit: Vec<String> = seen.iter().map(|s| coq::nlist(s)).collect();
      let obs_lit = format!(
        "{{| o_err := {}; o_seen := {}; o_total := {}; o_nhits := {}; o_more := {}; o_agg := {}; o_sugg := {} |}}",
        err,
        coq::list(&seen_lit),
        total,
        nhits,
        coq::b(more),
        agg_cls,
        sugg_cls
      );
      cases.push(format!(
        "{{| k_idx := {}; k_req := {}; k_obs := {} |}}",
        coq::list(&idx_lit),
        req_lit,
        obs_lit
      ));
      let differs = v.cursor.is_some()
        || v.limit != 10
        || v.sort.name != "default"
        || v.exec != "wand"
        || v.explain
        || v.profile
        || v.rescore.is_some()
        || !v.return_hits
        || v.candidate.is_some();
      let nt = differs && has_aggs && !both.is_empty() && err == 0;
      bump(dist, &format!("sort:{}", v.sort.name));
      bump(dist, &format!("exec:{}", v.exec));
      for (flag, name) in [
        (v.explain, "explain"),
        (v.profile, "profile"),
        (v.rescore.is_some(), "rescore"),
        (!v.return_hits, "return_hits_false"),
        (v.candidate.is_some(), "candidate_size"),
        (v.cursor.is_some(), "with_cursor"),
        (err != 0, "error_responses"),
        (agg_cls != 0, "agg_differs_from_baseline"),
        (nt, "nontrivial"),
      ] {
        if flag {
          bump(dist, name);
        }
      }
      let streamed: usize = seen.iter().map(|s| s.len()).sum();
      meta.push(json!({
        "world": wi, "ndocs": ndocs, "segments": layout.batches.iter().map(|b| b.len()).collect::<Vec<_>>(), "deleted": layout.deleted,
        "query": spec.query.q, "filter": spec.filter, "aggs": spec.aggs, "suggest": spec.suggest,
        "variation": {"sort": v.sort.name, "execution": v.exec, "bmw_block_size": v.bmw_block, "explain": v.explain,
                      "profile": v.profile, "rescore_window": v.rescore, "return_hits": v.return_hits, "limit": v.limit,
                      "candidate_size": v.candidate, "cursor": v.cursor.as_ref().map(|c| c.0.clone()), "walk_page": v.walk_page},
        "matched": both.len(), "streamed_to_collector": streamed, "error": err, "agg_class": agg_cls, "suggest_class": sugg_cls,
        "nt": nt,
      }));
      out.map(|sr| (sr, rank))
    };

    for v in vars.iter() {
      run_var(v, &mut dist, &mut cases, &mut meta);
    }
    for start in walk_starts.iter() {
      let mut v = start.clone();
      let mut returned = 0u64;
      let max_pages = if thorough { 6 } else { 4 };
      for page in 1..=max_pages {
        v.walk_page = page;
        let Some((sr, rank)) = run_var(&v, &mut dist, &mut cases, &mut meta) else { break };
        let Some(next) = sr.next_cursor.clone() else { break };
        let last = idx_of(&sr.hits.last().expect("page with next_cursor has hits").doc_id).unwrap();
        returned += sr.hits.len() as u64;
        v.cursor = Some((next, *rank.get(&last).expect("hit has a rank"), returned));
        // now and then: a cursor together with return_hits = false (rejected by the implementation)
        if page == 1 && r.chance(1, 6) {
          let mut bad = v.clone();
          bad.return_hits = false;
          run_var(&bad, &mut dist, &mut cases, &mut meta);
        }
      }
    }
  }
  std::fs::remove_file(&progress).ok();
  let files = write_cases(&args.out, "From SL Require Import C13.Model.", "case", "check_case", &cases, 40);
  let nt = meta.iter().filter(|m| m["nt"] == json!(true)).count();
  write_json(
    &args.out,
    "cases.json",
    &json!({
      "files": files, "cases": meta,
      "distribution": {"worlds": nworlds, "variations": dist, "aggregation_kinds": agg_stats.kinds, "max_agg_depth": agg_stats.max_depth},
      "nontrivial": nt,
    }),
  );
}
