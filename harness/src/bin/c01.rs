//! C01 engine: histories run on the real FsStorage with the cfg(searchlite_verif) trace on; the
//! trace is replayed into the shadow file system (crashfs.rs); at every operation boundary crash
//! images are materialised and reopened with the real Index::open + reader + match_all.
use searchlite_core::api::types::StorageType;
use searchlite_core::storage::verif_trace::{self, FsOp};
use searchlite_core::Index;
use slv::crashfs::ShadowFs;
use slv::hist::{apply, gen_history, Api, Sys, IDS};
use slv::{coq, parse_args, write_cases, write_json, Rng};
use std::collections::BTreeMap;
use std::path::Path;

fn leaf(p: &Path) -> String {
  p.file_name().map(|s| s.to_string_lossy().to_string()).unwrap_or_default()
}

/// Maps one real operation to the abstract alphabet of C01/Model.v: Some((code, segment name)).
struct Abstractor {
  seg_begun: Vec<String>,
  seg_unlinked: Vec<String>,
  last_was_wal_open: bool,
}

fn seg_of(name: &str) -> Option<String> {
  name.strip_prefix("seg_").and_then(|r| r.split('.').next()).map(|s| s.to_string())
}

impl Abstractor {
  fn map(&mut self, op: &FsOp) -> Option<(u64, Option<String>)> {
    let was_wal_open = self.last_was_wal_open;
    self.last_was_wal_open = false;
    match op {
      FsOp::OpenRead(_) | FsOp::ReadAll(_) | FsOp::Mark(_) | FsOp::RemoveDirAll(_) => {
        self.last_was_wal_open = was_wal_open;
        None
      }
      FsOp::OpenAppend(p) if leaf(p) == "wal.log" => {
        self.last_was_wal_open = true;
        Some((1, None))
      }
      FsOp::Write { path, .. } => {
        let n = leaf(path);
        if n == "wal.log" {
          Some((2, None))
        } else {
          None
        }
      }
      FsOp::Fsync(p) => {
        let n = leaf(p);
        if n == "wal.log" {
          Some((3, None))
        } else if n == "MANIFEST.tmp" {
          Some((8, None))
        } else if n.ends_with(".meta") {
          seg_of(&n).map(|s| (6, Some(s)))
        } else {
          None
        }
      }
      FsOp::SetLen(p, 0) if leaf(p) == "wal.log" => Some((4, None)),
      FsOp::Create(p) => {
        let n = leaf(p);
        if n == "MANIFEST.tmp" {
          Some((7, None))
        } else if let Some(s) = seg_of(&n) {
          if self.seg_begun.contains(&s) {
            None
          } else {
            self.seg_begun.push(s.clone());
            Some((5, Some(s)))
          }
        } else {
          Some((99, None))
        }
      }
      FsOp::Rename(_, _) => Some((9, None)),
      FsOp::DirFsync(_) => {
        if was_wal_open {
          None // the directory fsync that belongs to the creation of wal.log
        } else {
          Some((10, None))
        }
      }
      FsOp::Unlink(p) => {
        let n = leaf(p);
        if let Some(s) = seg_of(&n) {
          if self.seg_unlinked.contains(&s) {
            None
          } else {
            self.seg_unlinked.push(s.clone());
            Some((11, Some(s)))
          }
        } else {
          Some((98, None))
        }
      }
      _ => Some((97, None)),
    }
  }
}

fn lit_contents(c: &[(String, i64)]) -> String {
  let lits: Vec<String> = c
    .iter()
    .map(|(id, v)| {
      let i = IDS.iter().position(|x| x == id).map(|x| x as u64).unwrap_or(999);
      coq::pair(&i.to_string(), &(if *v < 0 { 999_999 } else { *v as u64 }).to_string())
    })
    .collect();
  coq::list(&lits)
}

fn recover(img: &slv::crashfs::Image, scratch: &Path, n: &mut u64) -> Option<Vec<(String, i64)>> {
  *n += 1;
  let dir = scratch.join(format!("img{n}"));
  img.materialize(&dir);
  let mut o = slv::fixtures::opts(&dir, StorageType::Filesystem);
  o.create_if_missing = false;
  let r = std::panic::catch_unwind(|| {
    let idx = Index::open(o).ok()?;
    slv::fixtures::contents(&idx).ok()
  })
  .unwrap_or(None);
  let _ = std::fs::remove_dir_all(&dir);
  r
}

fn main() {
  let args = parse_args();
  let mut rng = Rng::new(args.seed);
  let thorough = args.tier == "thorough";
  let mut cases = Vec::new();
  let mut meta = Vec::new();
  let (mut n_images, mut n_boundaries, mut n_calls, mut n_unopenable, mut n_inflight_new) = (0u64, 0u64, 0u64, 0u64, 0u64);
  let mut kinds: BTreeMap<String, usize> = BTreeMap::new();
  std::panic::set_hook(Box::new(|_| {}));
  for case_no in 0..args.n {
    let len = if thorough { 10 + rng.below(50) as usize } else { 8 + rng.below(25) as usize };
    let max_live = 1 + rng.below(2) as usize;
    let hist = gen_history(&mut rng, len, max_live);
    let scratch = slv::fixtures::scratch();
    let dir = scratch.path().join("idx");
    let opts = slv::fixtures::opts(&dir, StorageType::Filesystem);
    let mut fs = ShadowFs::default();
    verif_trace::start();
    let idx = Index::create(&dir, slv::fixtures::basic_schema(), opts.clone()).expect("create");
    for op in verif_trace::take() {
      fs.apply(&op);
    }
    // a quarter of the histories start from a directory that an interrupted manifest store left
    // dirty: a stale temporary file (durable, junk content) sits next to the manifest
    let dirty = rng.chance(1, 4);
    if dirty {
      let junk = b"{\"stale\": true, \"segments\": [".to_vec();
      std::fs::write(dir.join("MANIFEST.tmp"), &junk).expect("stale tmp");
      fs.inodes.push(slv::crashfs::Inode { vol: junk.clone(), dur: junk });
      let i = fs.inodes.len() - 1;
      fs.vdir.insert("MANIFEST.tmp".into(), i);
      fs.ddir.insert("MANIFEST.tmp".into(), i);
      *kinds.entry("dirty_start_stale_tmp".into()).or_insert(0) += 1;
    }
    let mut sys = Sys { idx: Some(idx), writers: BTreeMap::new(), opts, mem: None };
    let mut abs = Abstractor { seg_begun: Vec::new(), seg_unlinked: Vec::new(), last_was_wal_open: false };
    let mut seg_names: Vec<String> = Vec::new();
    let mut traces: Vec<String> = Vec::new();
    let mut after: Vec<String> = Vec::new();
    let mut after_json = Vec::new();
    let mut crashes: Vec<String> = Vec::new();
    let mut crash_json = Vec::new();
    let mut img_no = 0u64;
    let mut prev: Vec<(String, i64)> = Vec::new();
    for (k, a) in hist.iter().enumerate() {
      n_calls += 1;
      verif_trace::start();
      let res = apply(&mut sys, a);
      let ops = verif_trace::take();
      let cur = slv::fixtures::contents(sys.idx.as_ref().unwrap()).expect("search");
      let _ = verif_trace::take();
      after.push(lit_contents(&cur));
      after_json.push(cur.clone());
      let mut codes: Vec<String> = Vec::new();
      let mut j = 0u64;
      let nops = ops.len();
      // boundary before the first operation of the call is the "whole" boundary of the previous call
      for (r, op) in ops.iter().enumerate() {
        let changed = fs.apply(op);
        if let Some((code, seg)) = abs.map(op) {
          let si = match seg {
            Some(s) => {
              if !seg_names.contains(&s) {
                seg_names.push(s.clone());
              }
              seg_names.iter().position(|x| *x == s).unwrap() as u64
            }
            None => 0,
          };
          codes.push(coq::pair(&code.to_string(), &si.to_string()));
          j += 1;
          *kinds.entry(format!("op{code}")).or_insert(0) += 1;
        }
        if !changed {
          continue;
        }
        // skip boundaries between consecutive writes to the same non-log file
        if let (FsOp::Write { path: p1, .. }, Some(FsOp::Write { path: p2, .. })) = (op, ops.get(r + 1)) {
          if p1 == p2 && leaf(p1) != "wal.log" {
            continue;
          }
        }
        let whole = r + 1 == nops;
        n_boundaries += 1;
        for (img, desc) in fs.images(if thorough { 6 } else { 2 }, &mut rng) {
          n_images += 1;
          let got = recover(&img, scratch.path(), &mut img_no);
          if got.is_none() {
            n_unopenable += 1;
          }
          if got.as_ref() == Some(&cur) && cur != prev && !whole {
            n_inflight_new += 1;
          }
          let lit = match &got {
            Some(c) => format!("(Some {})", lit_contents(c)),
            None => "None".to_string(),
          };
          crashes.push(format!("({k}, {j}, {}, {lit})", coq::b(whole)));
          let bad = match &got {
            None => true,
            Some(c) => !((!whole && *c == prev) || *c == cur),
          };
          if bad && crash_json.len() < 6 {
            crash_json.push(serde_json::json!({"call": k, "api": a.coq(), "abstract_ops_done": j, "real_op": format!("{op:?}").chars().take(120).collect::<String>(),
              "image": desc, "recovered": got, "before": prev, "after": cur, "files": img.files.keys().collect::<Vec<_>>()}));
          }
        }
      }
      if res.is_err() {
        *kinds.entry("call_err".into()).or_insert(0) += 1;
      }
      traces.push(coq::list(&codes));
      prev = cur;
    }
    let hl: Vec<String> = hist.iter().map(|a| a.coq()).collect();
    cases.push(format!(
      "{{| c_hist := {}; c_trace := {}; c_after := {}; c_crash := {} |}}",
      coq::list(&hl), coq::list(&traces), coq::list(&after), coq::list(&crashes)
    ));
    meta.push(serde_json::json!({"case": case_no, "history": hl, "crash_observations": crashes.len(),
      "suspicious_images": crash_json, "final_contents": after_json.last(),
      "nt": hist.iter().any(|a| matches!(a, Api::Commit(_) | Api::Compact))}));
  }
  let files = write_cases(&args.out, "From SL Require Import Core.Model C01.Model.", "case01", "check_case", &cases, 8);
  write_json(&args.out, "cases.json", &serde_json::json!({"files": files, "cases": meta,
    "distribution": {"histories": args.n, "calls": n_calls, "boundaries": n_boundaries, "crash_images_reopened": n_images,
      "images_not_openable": n_unopenable, "images_showing_inflight_result": n_inflight_new, "abstract_op_kinds": kinds}}));
}
