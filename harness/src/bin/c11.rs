//! C11 engine: walks real `IndexReader::search` pages over corpora with many score / sort-value
//! ties across 1-4 segments and compares every walk with one big request; replays cursors against
//! other sort plans, after a commit that adds a segment, after a compaction, and in forged /
//! re-spelled forms.  Writes (input, observation) cases for C11/Model.v.
use searchlite_core::api::types::StorageType;
use searchlite_core::query::sort::SortPlan;
use serde_json::{json, Value};
use slv::qx::{self, World};
use slv::{coq, parse_args, write_cases, write_json, Rng};
use std::collections::BTreeMap;

#[derive(Clone)]
enum OCur {
  V1(String),
  V2 { hexlen: usize, payload: Option<[u64; 7]> }, // ver gen ret plan seg doc nvalues
}

#[derive(Clone)]
struct OPage {
  err: Option<String>,
  hits: Vec<(u64, u32)>,
  total: u64,
  next: Option<OCur>,
  raw_next: Option<String>,
}

#[derive(Clone)]
struct Replay {
  kind: &'static str,
  cur: OCur,
  gen: u64,
  plan: u64,
  nfields: u64,
  fast: bool,
  foreign: bool,
  err: bool,
  same: bool,
}

struct Case {
  req: Value, // without limit/cursor
  limit: usize,
  cand: usize,
  fast: bool,
  exhaustive: bool,
  gen: u64,
  plan: u64,
  nfields: u64,
  segs: Vec<Vec<u64>>,
  full: Vec<(u64, u32)>,
  pages: Vec<OPage>,
  overrun: bool,
  replays: Vec<Replay>,
  first_cursor: Option<(String, Vec<(u64, u32)>)>, // cursor after page 1 and the hits of page 2
  debug: Option<Value>, // filled when the walk differs from the big request: ids, scores, documents
}

fn unhex(s: &str) -> Option<Vec<u8>> {
  if s.len() % 2 != 0 || !s.is_ascii() {
    return None;
  }
  (0..s.len() / 2).map(|i| u8::from_str_radix(&s[2 * i..2 * i + 2], 16).ok()).collect()
}

fn hex(b: &[u8]) -> String {
  b.iter().map(|x| format!("{x:02x}")).collect()
}

fn parse_v2(cursor: &str) -> OCur {
  let payload = unhex(cursor).and_then(|b| serde_json::from_slice::<Value>(&b).ok()).and_then(|v| {
    Some([
      v.get("version")?.as_u64()?,
      v.get("generation")?.as_u64()?,
      v.get("returned")?.as_u64()?,
      v.get("plan_hash")?.as_u64()?,
      v.get("segment_ord")?.as_u64()?,
      v.get("doc_id")?.as_u64()?,
      v.get("values")?.as_array()?.len() as u64,
    ])
  });
  OCur::V2 { hexlen: cursor.len(), payload }
}

fn ocur(fast_cursor: bool, s: &str) -> OCur {
  if fast_cursor {
    OCur::V1(s.to_string())
  } else {
    parse_v2(s)
  }
}

fn hits_of(r: &searchlite_core::api::reader::SearchResult) -> Vec<(u64, u32)> {
  r.hits.iter().map(|h| (qx::parse_id(&h.doc_id), h.score.to_bits())).collect()
}

fn coq_cur(c: &OCur) -> String {
  match c {
    OCur::V1(s) => format!("(OC1 {})", coq::bytes(s.as_bytes())),
    OCur::V2 { hexlen, payload } => format!(
      "(OC2 {} {})",
      hexlen,
      coq::opt(payload.map(|p| format!(
        "{{| s_ver := {}; s_gen := {}; s_ret := {}; s_plan := {}; s_seg := {}; s_doc := {}; s_nvalues := {} |}}",
        p[0], p[1], p[2], p[3], p[4], p[5], p[6]
      )))
    ),
  }
}

fn coq_pairs(v: &[(u64, u32)]) -> String {
  let xs: Vec<String> = v.iter().map(|(a, b)| format!("({a}, {b})")).collect();
  coq::list(&xs)
}

fn main() {
  let args = parse_args();
  let mut rng = Rng::new(args.seed);
  let thorough = args.tier == "thorough";
  let worlds = args.n;
  let progress = args.out.join("progress.txt");
  let mut cases: Vec<Case> = Vec::new();
  let mut dist: BTreeMap<String, u64> = BTreeMap::new();
  let bump = |dist: &mut BTreeMap<String, u64>, k: &str, n: u64| {
    *dist.entry(k.to_string()).or_insert(0) += n;
  };

  for wi in 0..worlds {
    let nseg = 1 + rng.below(4) as usize;
    let storage = if rng.chance(1, 2) { StorageType::InMemory } else { StorageType::Filesystem };
    // a third of the worlds has larger segments, so that WAND/BMW pruning (k = limit+1) is reached
    let max_docs = if rng.chance(1, 3) { 40 } else if thorough { 14 } else { 9 };
    let mut w = World::build(&mut rng, nseg, 3, max_docs, storage);
    if rng.chance(1, 3) {
      // tombstones: a delete-only commit
      let k = 1 + rng.below(3);
      let ids: Vec<u64> = (0..k).map(|_| rng.below(w.next_id)).collect();
      w.delete(&ids);
      bump(&mut dist, "worlds_with_deletes", 1);
    }
    bump(&mut dist, &format!("worlds_segments_{nseg}"), 1);
    let reader = w.reader();
    let gen0 = w.generation();
    let ndocs = w.docs.len();
    let schema = qx::schema();
    let first_case = cases.len();
    let nconf = if thorough { 8 } else { 5 };
    for ci in 0..nconf {
      let (query, has_terms) = qx::gen_query(&mut rng);
      let filter = qx::gen_filter(&mut rng);
      let sort = qx::gen_sort(&mut rng);
      let fast = qx::is_fast_path(&sort);
      let execution = *rng.pick(&["wand", "wand", "bmw", "bm25"][..]);
      let block: Option<u64> = if rng.chance(1, 2) { Some(1 + rng.below(4)) } else { None };
      let mut base = json!({"query": query, "sort": sort, "execution": execution});
      if let Some(f) = &filter {
        base["filter"] = f.clone();
      }
      if let Some(b) = block {
        base["bmw_block_size"] = json!(b);
      }
      let exhaustive = !(fast && has_terms && execution != "bm25");
      let sort_specs: Vec<searchlite_core::api::types::SortSpec> =
        serde_json::from_value(json!(sort)).expect("sort specs");
      let plan = SortPlan::from_request(&schema, &sort_specs).expect("sort plan").hash() as u64;
      let nfields = sort.len().max(1) as u64;
      // the single big request
      let mut big = base.clone();
      big["limit"] = json!(ndocs + 5);
      std::fs::write(&progress, format!("world {wi} conf {ci} big {big}\n")).ok();
      let bigres = match qx::search(&reader, &qx::request(big.clone())) {
        Ok(r) => r,
        Err(e) => panic!("big request failed: {e} for {big}"),
      };
      assert!(bigres.next_cursor.is_none(), "big request has a next cursor");
      let full = hits_of(&bigres);
      {
        let mut ids: Vec<u64> = full.iter().map(|h| h.0).collect();
        ids.sort();
        ids.dedup();
        assert_eq!(ids.len(), full.len(), "big request returned a document twice: {big}");
      }
      // ties in the big request (same score bits in neighbours) and across segments
      let mut tie_pairs = 0u64;
      let mut cross_seg_ties = 0u64;
      for p in full.windows(2) {
        if p[0].1 == p[1].1 {
          tie_pairs += 1;
          if w.batch_of(p[0].0) != w.batch_of(p[1].0) {
            cross_seg_ties += 1;
          }
        }
      }
      bump(&mut dist, "adjacent_equal_score_pairs", tie_pairs);
      bump(&mut dist, "adjacent_equal_score_pairs_across_segments", cross_seg_ties);
      bump(&mut dist, if fast { "plan_score_fast_path" } else { "plan_sort_path" }, 1);
      bump(&mut dist, &format!("execution_{execution}"), 1);
      bump(&mut dist, if exhaustive { "exhaustive" } else { "pruned" }, 1);
      bump(&mut dist, &format!("sort_keys_{}", sort.len()), 1);
      for s in &sort {
        bump(&mut dist, &format!("sort_field_{}", s["field"].as_str().unwrap()), 1);
      }
      if full.is_empty() {
        bump(&mut dist, "empty_result_sets", 1);
      }
      // segments: keys (= rank in the big request) of the matching docs by commit batch
      let mut segs: Vec<Vec<u64>> = vec![Vec::new(); w.batches];
      let mut order: Vec<usize> = (0..full.len()).collect();
      order.sort_by_key(|&i| full[i].0); // scan order inside a segment = id order
      for i in order {
        segs[w.batch_of(full[i].0)].push(i as u64);
      }
      // page sizes
      let mut sizes: Vec<usize> = Vec::new();
      let nsizes = if thorough { 4 } else { 2 };
      while sizes.len() < nsizes {
        let s = 1 + rng.below(7) as usize;
        if !sizes.contains(&s) {
          sizes.push(s);
        }
      }
      for limit in sizes {
        let cand = if rng.chance(1, 5) { limit + rng.below(4) as usize } else { 0 };
        let mut pages: Vec<OPage> = Vec::new();
        let mut cursor: Option<String> = None;
        let mut overrun = false;
        let mut first_cursor = None;
        loop {
          if pages.len() > full.len() + 2 {
            overrun = true;
            break;
          }
          let mut r = base.clone();
          r["limit"] = json!(limit);
          if cand > 0 {
            r["candidate_size"] = json!(cand);
          }
          if let Some(c) = &cursor {
            r["cursor"] = json!(c);
          }
          std::fs::write(&progress, format!("world {wi} conf {ci} page {r}\n")).ok();
          match qx::search(&reader, &qx::request(r)) {
            Ok(res) => {
              let h = hits_of(&res);
              if pages.len() == 1 {
                if let Some(c) = &cursor {
                  first_cursor = Some((c.clone(), h.clone()));
                }
              }
              pages.push(OPage {
                err: None,
                hits: h,
                total: res.total_hits_estimate,
                next: res.next_cursor.as_deref().map(|s| ocur(fast, s)),
                raw_next: res.next_cursor.clone(),
              });
              match res.next_cursor {
                Some(c) => cursor = Some(c),
                None => break,
              }
            }
            Err(e) => {
              pages.push(OPage { err: Some(e), hits: vec![], total: 0, next: None, raw_next: None });
              break;
            }
          }
        }
        bump(&mut dist, &format!("page_size_{limit}"), 1);
        bump(&mut dist, "pages_total", pages.len() as u64);
        if pages.len() >= 3 {
          bump(&mut dist, "walks_with_3_or_more_pages", 1);
        }
        let walked: Vec<(u64, u32)> = pages.iter().flat_map(|p| p.hits.clone()).collect();
        let debug = if walked != full {
          Some(json!({
            "big_request": full.iter().map(|(id, b)| json!([id, f32::from_bits(*b), w.batch_of(*id)])).collect::<Vec<_>>(),
            "walk": pages.iter().map(|p| p.hits.iter().map(|(id, b)| json!([id, f32::from_bits(*b)])).collect::<Vec<_>>()).collect::<Vec<_>>(),
            "documents": full.iter().map(|(id, _)| json!([id, w.fields_of(*id)["body"]])).collect::<Vec<_>>(),
          }))
        } else {
          None
        };
        cases.push(Case {
          req: base.clone(), limit, cand, fast, exhaustive, gen: gen0, plan, nfields,
          segs: segs.clone(), full: full.clone(), pages, overrun, replays: Vec::new(), first_cursor, debug,
        });
      }
    }
    // ---- replays on the same reader: other sort plans, forged / re-spelled cursors
    let other_sorts: Vec<Vec<Value>> = vec![
      vec![],
      vec![json!({"field":"_score","order":"asc"})],
      vec![json!({"field":"n"})],
      vec![json!({"field":"n","order":"desc"})],
      vec![json!({"field":"tag"}), json!({"field":"_score"})],
      vec![json!({"field":"x","order":"desc"})],
    ];
    for case in cases[first_case..].iter_mut() {
      let Some((cur, page2)) = case.first_cursor.clone() else { continue };
      let run = |reader: &searchlite_core::api::reader::IndexReader, req: &Value, sort: Option<&Vec<Value>>, c: &str, limit: usize| {
        let mut r = req.clone();
        r["limit"] = json!(limit);
        r["cursor"] = json!(c);
        if let Some(s) = sort {
          r["sort"] = json!(s);
        }
        qx::search(reader, &qx::request(r))
      };
      // (a) another sort order. Whether a plan is "another" one is decided on the resolved sort
      // specifications (empty = [_score desc]; default order desc for _score, asc otherwise),
      // never on the implementation's plan hash - a hash that forgets a component must not hide
      // the replay. The third probe flips the direction of one key of the request's own plan.
      let norm = |v: &Vec<Value>| -> Vec<(String, String)> {
        if v.is_empty() {
          return vec![("_score".to_string(), "desc".to_string())];
        }
        v.iter()
          .map(|k| {
            let f = k["field"].as_str().unwrap_or("").to_string();
            let o = k["order"].as_str().map(|x| x.to_string()).unwrap_or_else(|| if f == "_score" { "desc".into() } else { "asc".into() });
            (f, o)
          })
          .collect()
      };
      let own: Vec<Value> = case.req.get("sort").and_then(|x| x.as_array()).cloned().unwrap_or_default();
      let own_norm = norm(&own);
      for probe in 0..3 {
        let s: Vec<Value> = if probe < 2 {
          rng.pick(&other_sorts[..]).clone()
        } else {
          let mut f = own_norm.clone();
          let k = rng.below(f.len() as u64) as usize;
          f[k].1 = if f[k].1 == "desc" { "asc".into() } else { "desc".into() };
          f.iter().map(|(a, b)| json!({"field": a, "order": b})).collect()
        };
        let sspecs: Vec<searchlite_core::api::types::SortSpec> = serde_json::from_value(json!(s)).unwrap();
        let h = SortPlan::from_request(&schema, &sspecs).unwrap().hash() as u64;
        if norm(&s) == own_norm {
          continue;
        }
        let res = run(&reader, &case.req, Some(&s), &cur, case.limit);
        let same = res.as_ref().map(|r| hits_of(r) == page2).unwrap_or(false);
        case.replays.push(Replay {
          kind: "other_sort", cur: ocur(case.fast, &cur), gen: gen0, plan: h, nfields: s.len().max(1) as u64,
          fast: qx::is_fast_path(&s), foreign: true, err: res.is_err(), same,
        });
        bump(&mut dist, "replay_other_sort", 1);
      }
      // (b) forged / re-spelled forms on the same request
      let mut forged: Vec<(&'static str, String, bool)> = Vec::new(); // (kind, cursor, foreign)
      if case.fast {
        let b = unhex(&cur).expect("v1 hex");
        forged.push(("v1_uppercase", cur.to_uppercase(), false));
        forged.push(("v1_plus_digit", format!("+{}", &cur[1..]), false)); // "01" -> "+1"
        forged.push(("v1_short", cur[..41].to_string(), false));
        forged.push(("v1_long", format!("{cur}0"), false));
        let mut nh = cur.clone().into_bytes();
        let pos = rng.below(42) as usize;
        nh[pos] = *rng.pick(&[b'g', b'-', b' ', b'x', b'/', b':', b'@', b'G', b'`'][..]);
        forged.push(("v1_nonhex", String::from_utf8(nh).unwrap(), false));
        let mut v = b.clone();
        v[0] = *rng.pick(&[0u8, 2, 3, 255][..]);
        forged.push(("v1_version", hex(&v), false));
        let mut g = b.clone();
        let gv = u32::from_be_bytes([g[1], g[2], g[3], g[4]]).wrapping_add(1 + rng.below(3) as u32);
        g[1..5].copy_from_slice(&gv.to_be_bytes());
        forged.push(("v1_generation", hex(&g), true));
        let mut t = b.clone();
        t[17..21].copy_from_slice(&(50_001u32 + rng.below(1000) as u32).to_be_bytes());
        forged.push(("v1_too_far", hex(&t), false));
      } else {
        let b = unhex(&cur).expect("v2 hex");
        let v: Value = serde_json::from_slice(&b).expect("v2 json");
        let m = |k: &str, val: Value| -> String {
          let mut x = v.clone();
          x[k] = val;
          hex(serde_json::to_string(&x).unwrap().as_bytes())
        };
        forged.push(("v2_uppercase", cur.to_uppercase(), false));
        forged.push(("v2_generation", m("generation", json!(v["generation"].as_u64().unwrap() + 1)), true));
        forged.push(("v2_plan_hash", m("plan_hash", json!(v["plan_hash"].as_u64().unwrap() ^ 1)), true));
        forged.push(("v2_version", m("version", json!(1)), false));
        forged.push(("v2_too_far", m("returned", json!(50_001)), false));
        forged.push(("v2_no_values", m("values", json!([])), false));
        forged.push(("v2_odd", cur[..cur.len() - 1].to_string(), false));
        forged.push(("v2_cut_json", cur[..cur.len() - 2].to_string(), false));
      }
      for (kind, c, foreign) in forged {
        let res = run(&reader, &case.req, None, &c, case.limit);
        let same = res.as_ref().map(|r| hits_of(r) == page2).unwrap_or(false);
        case.replays.push(Replay {
          kind, cur: ocur(case.fast, &c), gen: gen0, plan: case.plan, nfields: case.nfields,
          fast: case.fast, foreign, err: res.is_err(), same,
        });
        bump(&mut dist, &format!("replay_{kind}"), 1);
      }
    }
    // ---- replays after a commit that adds a segment, then after a compaction
    // (half of the multi-segment worlds compact directly, without the commit in between: the
    // generation a cursor is checked against must change on every path, whatever mix of new
    // segments and vanished tombstones a history produces)
    let direct = nseg >= 2 && rng.chance(1, 2);
    let (gen1, reader1) = if direct {
      bump(&mut dist, "worlds_compacted_directly", 1);
      (gen0, w.reader())
    } else {
      let extra: Vec<Value> = (0..2 + rng.below(3)).map(|_| qx::gen_doc_fields(&mut rng)).collect();
      w.commit_batch(&extra);
      let g = w.generation();
      assert!(g != gen0, "a commit with new documents keeps the generation");
      (g, w.reader())
    };
    w.index.compact().expect("compact");
    let gen2 = w.generation();
    assert!(gen2 != gen0 && (direct || gen2 != gen1), "compaction keeps the generation");
    let reader2 = w.reader();
    for case in cases[first_case..].iter_mut() {
      let Some((cur, page2)) = case.first_cursor.clone() else { continue };
      for (kind, rd, g) in [("after_commit", &reader1, gen1), ("after_compaction", &reader2, gen2)] {
        if direct && kind == "after_commit" {
          continue;
        }
        let mut r = case.req.clone();
        r["limit"] = json!(case.limit);
        r["cursor"] = json!(cur);
        std::fs::write(&progress, format!("world {wi} replay {kind} {r}\n")).ok();
        let res = qx::search(rd, &qx::request(r));
        let same = res.as_ref().map(|r| hits_of(r) == page2).unwrap_or(false);
        case.replays.push(Replay {
          kind, cur: ocur(case.fast, &cur), gen: g, plan: case.plan, nfields: case.nfields,
          fast: case.fast, foreign: true, err: res.is_err(), same,
        });
        bump(&mut dist, &format!("replay_{kind}"), 1);
      }
    }
  }
  std::fs::remove_file(&progress).ok();

  let mut lits: Vec<String> = Vec::new();
  let mut meta: Vec<Value> = Vec::new();
  for c in &cases {
    let segs: Vec<String> = c.segs.iter().map(|s| coq::nlist(s)).collect();
    let pages: Vec<String> = c
      .pages
      .iter()
      .map(|p| {
        format!(
          "{{| o_err := {}; o_hits := {}; o_total := {}; o_next := {} |}}",
          coq::b(p.err.is_some()),
          coq_pairs(&p.hits),
          p.total,
          coq::opt(p.next.as_ref().map(coq_cur))
        )
      })
      .collect();
    let replays: Vec<String> = c
      .replays
      .iter()
      .map(|r| {
        format!(
          "{{| r_cur := {}; r_gen := {}; r_plan := {}; r_nfields := {}; r_fast := {}; r_foreign := {}; r_err := {}; r_same := {} |}}",
          coq_cur(&r.cur), r.gen, r.plan, r.nfields, coq::b(r.fast), coq::b(r.foreign), coq::b(r.err), coq::b(r.same)
        )
      })
      .collect();
    lits.push(format!(
      "{{| segs := {}; full := {}; limit := {}; cand := {}; fast := {}; exhaustive := {}; strategy := {}; gen := {}; plan := {}; nfields := {}; pages := {}; overrun := {}; replays := {} |}}",
      coq::list(&segs), coq_pairs(&c.full), c.limit, c.cand, coq::b(c.fast), coq::b(c.exhaustive),
      match c.req["execution"].as_str() { Some("bm25") => 0, Some("wand") => 1, _ => 2 }, c.gen, c.plan,
      c.nfields, coq::list(&pages), coq::b(c.overrun), coq::list(&replays)
    ));
    meta.push(json!({
      "request": c.req, "limit": c.limit, "candidate_size": c.cand, "matches": c.full.len(),
      "pages": c.pages.iter().map(|p| json!({"err": p.err, "n": p.hits.len(), "total": p.total, "next": p.raw_next})).collect::<Vec<_>>(),
      "segments": c.segs.iter().map(|s| s.len()).collect::<Vec<_>>(),
      "replays": c.replays.iter().map(|r| json!({"kind": r.kind, "err": r.err, "same": r.same})).collect::<Vec<_>>(),
      "nt": c.pages.len() >= 2, "execution": c.req["execution"], "differs_from_big_request": c.debug,
    }));
  }
  let files = write_cases(&args.out, "From SL Require Import C11.Model.", "case", "check_case", &lits, 40);
  write_json(
    &args.out,
    "cases.json",
    &json!({"files": files, "cases": meta, "distribution": dist}),
  );
}
