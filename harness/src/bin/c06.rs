//! C06 engine: real reader threads against real commits and compactions under the deterministic
//! scheduler (`slv::sched`).  A scenario = setup history (1-4 initial segments) + mutator script
//! (commits and compactions through one writer handle) + reader programs (open; search; search).
//! For single-reader scenarios ALL interleavings of the reader's pause points (before/after the
//! manifest copy, after every segment open, after open, before the second search, around a
//! failed segment open and a retry) with the mutator's pause points (after every commit publish,
//! after the compaction publish, after the cleanup of the old segment files) are enumerated;
//! scenarios with two readers are sampled.  One case per schedule: the recorded event order with
//! the observation of every reader step; Coq replays it (C06.Model.check_case).
use searchlite_core::api::reader::IndexReader;
use searchlite_core::api::types::StorageType;
use searchlite_core::api::IndexWriter;
use searchlite_core::Index;
use slv::hist::{doc, Api, IDS};
use slv::sched::{Choice, Ctl, Dfs, Ev};
use slv::{coq, parse_args, write_cases, write_json, Rng};
use std::collections::BTreeMap;
use std::sync::Arc;
use std::time::Duration;

#[derive(Clone)]
struct Scenario {
  setup: Vec<Api>,
  script: Vec<Api>,
  readers: usize,
  nseg: usize,
  shape: String,
}

fn reader_contents(r: &IndexReader) -> Result<Vec<(u64, u64)>, String> {
  let req: searchlite_core::api::types::SearchRequest = serde_json::from_value(serde_json::json!({
    "query": {"type": "match_all"}, "limit": 10000, "return_stored": true, "highlight_field": null
  }))
  .map_err(|e| e.to_string())?;
  let res = r.search(&req).map_err(|e| e.to_string())?;
  let mut out: Vec<(u64, u64)> = res
    .hits
    .iter()
    .map(|h| {
      let n = h.fields.as_ref().and_then(|f| f.get("n")).and_then(|v| v.as_i64()).unwrap_or(-1);
      let id = IDS.iter().position(|x| *x == h.doc_id).map(|x| x as u64).unwrap_or(999);
      (id, if n < 0 { 999_999 } else { n as u64 })
    })
    .collect();
  out.sort();
  Ok(out)
}

fn apply(idx: &Index, w: &mut IndexWriter, a: &Api) -> Result<(), String> {
  let e = |x: anyhow::Error| x.to_string();
  match a {
    Api::Add(_, _, id, v) => w.add_document(&doc(*id, *v)).map(|_| ()).map_err(e),
    Api::Del(_, _, id) => w.delete_document(IDS[*id as usize]).map_err(e),
    Api::Commit(_) => w.commit().map_err(e),
    Api::Rollback(_) => w.rollback().map_err(e),
    Api::Compact => idx.compact().map_err(e),
    _ => Ok(()),
  }
}

/// adds/deletes followed by a commit; `must_add` forces at least one add (so a segment is written)
fn gen_commit(rng: &mut Rng, call: &mut u64, ver: &mut u64, must_add: bool, out: &mut Vec<Api>) {
  let n = 1 + rng.below(3);
  let mut added = false;
  for _ in 0..n {
    *call += 1;
    if !must_add && rng.chance(1, 3) {
      out.push(Api::Del(1, *call, rng.below(IDS.len() as u64)));
    } else {
      *ver += 1;
      out.push(Api::Add(1, *call, rng.below(IDS.len() as u64), *ver));
      added = true;
    }
  }
  if must_add && !added {
    *call += 1;
    *ver += 1;
    out.push(Api::Add(1, *call, rng.below(IDS.len() as u64), *ver));
  }
  out.push(Api::Commit(1));
}

fn gen_scenario(rng: &mut Rng, nseg: usize, shape: &str, readers: usize) -> Scenario {
  let (mut call, mut ver) = (0u64, 0u64);
  let mut setup = vec![Api::NewWriter(1)];
  for _ in 0..nseg {
    gen_commit(rng, &mut call, &mut ver, true, &mut setup);
  }
  let mut script = Vec::new();
  for ch in shape.chars() {
    match ch {
      'C' => gen_commit(rng, &mut call, &mut ver, false, &mut script),
      'A' => gen_commit(rng, &mut call, &mut ver, true, &mut script),
      _ => script.push(Api::Compact),
    }
  }
  Scenario { setup, script, readers, nseg, shape: shape.into() }
}

struct RunOut {
  trace: Vec<Choice>,
  log: Vec<Ev>,
  stuck: bool,
}

fn run_schedule(ctl: &Arc<Ctl>, sc: &Scenario, dfs: &Dfs, rnd: Option<&mut Rng>) -> RunOut {
  let dir = slv::fixtures::scratch();
  let opts = slv::fixtures::opts(dir.path(), StorageType::Filesystem);
  let idx = Arc::new(Index::create(dir.path(), slv::fixtures::basic_schema(), opts).expect("create"));
  let mut w = idx.writer().expect("writer");
  for a in &sc.setup {
    apply(&idx, &mut w, a).expect("setup call");
  }
  ctl.reset(Arc::new(|tid, section, stage| {
    if tid == 0 {
      matches!((section, stage), ("commit", "published") | ("compact", "published") | ("compact", "cleaned"))
    } else {
      matches!(
        (section, stage),
        ("reader", "manifest_copied")
          | ("reader", "segment_opened")
          | ("reader", "opened")
          | ("reader", "open_failed")
          | ("reader", "retry")
          | ("user", "before_search")
      )
    }
  }));
  let mut handles = Vec::new();
  {
    let (idx, ctl2, script) = (idx.clone(), ctl.clone(), sc.script.clone());
    handles.push(ctl.spawn(0, move || {
      let mut w = w;
      for (i, a) in script.iter().enumerate() {
        ctl2.note("user", "call", &i.to_string());
        let r = apply(&idx, &mut w, a);
        ctl2.note("user", "ret", &format!("{i}:{}", if r.is_ok() { "ok" } else { "err" }));
      }
      Ctl::quiet(move || drop(w));
    }));
  }
  for r in 1..=sc.readers {
    let (idx, ctl2) = (idx.clone(), ctl.clone());
    handles.push(ctl.spawn(r, move || match idx.reader() {
      Ok(reader) => {
        for k in 0..2 {
          if k > 0 {
            ctl2.point("user", "before_search", "");
          }
          match reader_contents(&reader) {
            Ok(c) => {
              let l: Vec<String> = c.iter().map(|(a, b)| coq::pair(&a.to_string(), &b.to_string())).collect();
              ctl2.note("user", "search", &coq::list(&l));
            }
            Err(e) => ctl2.note("user", "search_err", &e),
          }
        }
      }
      Err(e) => ctl2.note("user", "open_err", &e.to_string()),
    }));
  }
  let to = Duration::from_secs(20);
  let mut stuck = !ctl.wait_quiescent(to);
  let mut trace = Vec::new();
  let mut prev: Option<usize> = None;
  let mut rnd = rnd;
  while !stuck {
    let options: Vec<usize> = ctl.parked().iter().map(|p| p.0).collect();
    if options.is_empty() {
      break;
    }
    let prev_enabled = prev.filter(|p| options.contains(p));
    let chosen = match rnd.as_deref_mut() {
      Some(r) => *r.pick(&options),
      None => dfs.choose(trace.len(), &options, prev_enabled),
    };
    trace.push(Choice { chosen, options, prev_enabled });
    stuck = !ctl.step(chosen, to);
    prev = Some(chosen);
  }
  if stuck {
    ctl.abandon();
  }
  for h in handles {
    let _ = h.join();
  }
  RunOut { trace, log: ctl.log(), stuck }
}

/// Log -> Gallina trace `list (cevent * obs)`; also returns per-run statistics.
fn trace_of(sc: &Scenario, log: &[Ev], stats: &mut BTreeMap<String, usize>) -> (Vec<String>, bool, bool) {
  let mut out = Vec::new();
  let mut cur: Option<usize> = None; // mutator's current call
  let mut published = false;
  let mut last_failed: BTreeMap<usize, bool> = BTreeMap::new();
  let (mut saw_retry, mut saw_err) = (false, false);
  let mut bump = |k: &str| *stats.entry(k.to_string()).or_insert(0) += 1;
  for e in log {
    let key = (e.section.as_str(), e.stage.as_str());
    if e.tid == 0 {
      match key {
        ("user", "call") => {
          cur = e.data.parse().ok();
          published = false;
        }
        ("commit", "segment_written") => out.push("(CCommitSeg 1, ONone)".to_string()),
        ("commit", "published") => {
          published = true;
          bump("commit_publish");
          out.push("(CCommitPublish 1, ONone)".to_string())
        }
        ("compact", "segment_written") => out.push("(CCompactSeg, ONone)".to_string()),
        ("compact", "published") => {
          published = true;
          bump("compact_publish");
          out.push("(CCompactPublish, ONone)".to_string())
        }
        ("compact", "cleaned") => out.push("(CCompactClean, ONone)".to_string()),
        ("user", "ret") => {
          if let Some(i) = cur {
            let a = &sc.script[i];
            let is_pub = matches!(a, Api::Commit(_) | Api::Compact);
            if !is_pub || !published {
              // a call that published nothing (add/delete/rollback, empty commit, no-op compaction)
              out.push(format!("(CCall ({}), ONone)", a.coq()));
            }
            if e.data.ends_with("err") {
              bump("mutator_call_err");
              out.push("(CCall Reopen, OBad)".to_string());
            }
          }
          cur = None;
        }
        _ => {}
      }
      continue;
    }
    let r = e.tid;
    let mut push = |ev: &str, o: String| out.push(format!("(CR {r} {ev}, {o})"));
    match key {
      ("reader", "manifest_copied") => {
        last_failed.insert(r, false);
        push("RCopy", "ONone".into())
      }
      ("reader", "segment_opened") => push("ROpenSeg", "OSegOk".into()),
      ("reader", "open_failed") => {
        last_failed.insert(r, true);
        bump("segment_missing");
        push("ROpenSeg", "OSegMissing".into())
      }
      ("reader", "retry") => {
        saw_retry = true;
        bump("retry");
        push("RCheck", "ORetry".into())
      }
      ("reader", "opened") => {
        bump("open_ok");
        push("RFinish", "OOpenOk".into())
      }
      ("user", "open_err") => {
        saw_err = true;
        bump("open_err");
        let ev = if last_failed.get(&r).copied().unwrap_or(false) { "RCheck" } else { "ROpenSeg" };
        push(ev, "OOpenErr".into())
      }
      ("user", "search") => {
        bump("search");
        push("RSearch", format!("OSearch {}", e.data))
      }
      ("user", "search_err") => {
        bump("search_err");
        push("RSearch", "OSearchErr".into())
      }
      ("thread", "panic") => push("RSearch", "OBad".into()),
      _ => {}
    }
  }
  (out, saw_retry, saw_err)
}

struct ScenOut {
  cases: Vec<String>,
  meta: Vec<serde_json::Value>,
  stats: BTreeMap<String, usize>,
  summary: serde_json::Value,
  stuck: usize,
}

fn explore(sc: &Scenario, sample: usize, mut rng: Rng) -> ScenOut {
  let ctl = Ctl::install();
  let setup_l: Vec<String> = sc.setup.iter().map(|a| a.coq()).collect();
  let mut dfs = Dfs::new(None);
  let mut o = ScenOut { cases: Vec::new(), meta: Vec::new(), stats: BTreeMap::new(), summary: serde_json::Value::Null, stuck: 0 };
  let (mut n_retry, mut n_err, mut runs) = (0usize, 0usize, 0usize);
  loop {
    let out = if sample > 0 { run_schedule(&ctl, sc, &dfs, Some(&mut rng)) } else { run_schedule(&ctl, sc, &dfs, None) };
    runs += 1;
    o.stuck += usize::from(out.stuck);
    let (mut tr, saw_retry, saw_err) = trace_of(sc, &out.log, &mut o.stats);
    n_retry += usize::from(saw_retry);
    n_err += usize::from(saw_err);
    if out.stuck {
      tr.push("(CCall Reopen, OBad)".to_string());
    }
    o.cases.push(coq::pair(&coq::list(&setup_l), &coq::list(&tr)));
    let sched: Vec<usize> = out.trace.iter().map(|c| c.chosen).collect();
    o.meta.push(serde_json::json!({
      "scenario": {"initial_segments": sc.nseg, "script_shape": sc.shape, "readers": sc.readers,
                   "setup": setup_l, "script": sc.script.iter().map(|a| a.coq()).collect::<Vec<_>>()},
      "schedule": sched, "trace": tr, "stuck": out.stuck,
      "nt": saw_retry || out.trace.iter().any(|c| c.options.len() > 1),
    }));
    if sample > 0 {
      if runs >= sample {
        break;
      }
    } else {
      dfs.advance(&out.trace);
      if dfs.done {
        break;
      }
    }
  }
  o.summary = serde_json::json!({"initial_segments": sc.nseg, "shape": sc.shape, "readers": sc.readers,
    "schedules": runs, "exhaustive": sample == 0, "schedules_with_retry": n_retry, "schedules_with_open_err": n_err});
  o
}

fn main() {
  let args = parse_args();
  let mut rng = Rng::new(args.seed);
  let thorough = args.tier == "thorough";
  // (initial segments, script shape, readers, sample size; 0 = all interleavings)
  let mut plan: Vec<(usize, &str, usize, usize)> = Vec::new();
  for nseg in 1..=3 {
    for shape in ["K", "CK", "KC", "AKC"] {
      plan.push((nseg, shape, 1, 0));
    }
  }
  plan.push((2, "K", 2, if thorough { 600 } else { 120 }));
  plan.push((3, "CK", 2, if thorough { 600 } else { 120 }));
  if thorough {
    for shape in ["AKAK", "KCK", "CCK", "AKCA"] {
      plan.push((3, shape, 1, 0));
    }
    plan.push((4, "AKC", 1, 0));
    plan.push((4, "K", 1, 0));
    plan.push((3, "AKC", 2, 1500));
  }
  if let Some(only) = args.extra.get("shape") {
    plan.retain(|p| p.1 == only);
  }
  let jobs: Vec<(Scenario, usize, Rng)> =
    plan.iter().map(|(nseg, shape, readers, sample)| (gen_scenario(&mut rng, *nseg, shape, *readers), *sample, rng.fork())).collect();
  let njobs = jobs.len();
  let queue = Arc::new(std::sync::Mutex::new(jobs.into_iter().enumerate().collect::<Vec<_>>()));
  let results: Arc<std::sync::Mutex<BTreeMap<usize, ScenOut>>> = Arc::new(std::sync::Mutex::new(BTreeMap::new()));
  let par: usize = args.extra.get("par").and_then(|p| p.parse().ok()).unwrap_or(6);
  let mut pool = Vec::new();
  for _ in 0..par.min(njobs).max(1) {
    let (queue, results) = (queue.clone(), results.clone());
    pool.push(std::thread::spawn(move || loop {
      // largest jobs were generated last for thorough; take from the back
      let job = queue.lock().unwrap().pop();
      let Some((i, (sc, sample, r))) = job else { break };
      let out = explore(&sc, sample, r);
      results.lock().unwrap().insert(i, out);
    }));
  }
  for p in pool {
    p.join().expect("explorer thread");
  }
  let results = std::mem::take(&mut *results.lock().unwrap());
  let mut cases = Vec::new();
  let mut meta = Vec::new();
  let mut stats: BTreeMap<String, usize> = BTreeMap::new();
  let mut per_scenario = Vec::new();
  let mut stuck_runs = 0usize;
  for (_, o) in results {
    cases.extend(o.cases);
    meta.extend(o.meta);
    for (k, v) in o.stats {
      *stats.entry(k).or_insert(0) += v;
    }
    per_scenario.push(o.summary);
    stuck_runs += o.stuck;
  }
  let files = write_cases(&args.out, "From SL Require Import Core.Model C06.Model.", "case06", "check_case", &cases, (cases.len() + 15) / 16 + 1);
  write_json(
    &args.out,
    "cases.json",
    &serde_json::json!({"files": files, "cases": meta,
      "distribution": {"schedules": cases.len(), "stuck_runs": stuck_runs, "scenarios": per_scenario, "events": stats}}),
  );
}
