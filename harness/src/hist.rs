//! Histories of index API calls shared by the C01/C02/C04 engines.
use searchlite_core::api::types::IndexOptions;
use searchlite_core::api::IndexWriter;
use searchlite_core::storage::Storage;
use searchlite_core::Index;
use crate::Rng;
use std::collections::BTreeMap;
use std::sync::Arc;

#[derive(Clone, Debug)]
pub enum Api {
  NewWriter(u64),
  Add(u64, u64, u64, u64),
  Del(u64, u64, u64),
  Commit(u64),
  Rollback(u64),
  Drop(u64),
  Compact,
  Reopen,
}

impl Api {
  pub fn coq(&self) -> String {
    match self {
      Api::NewWriter(h) => format!("NewWriter {h}"),
      Api::Add(h, c, id, v) => format!("AddDoc {h} {c} {id} {v}"),
      Api::Del(h, c, id) => format!("DelDoc {h} {c} {id}"),
      Api::Commit(h) => format!("Commit {h}"),
      Api::Rollback(h) => format!("Rollback {h}"),
      Api::Drop(h) => format!("DropWriter {h}"),
      Api::Compact => "Compact".into(),
      Api::Reopen => "Reopen".into(),
    }
  }
}

pub const IDS: [&str; 6] = ["a", "b", "c", "d", "e", "f"];

pub fn gen_history(rng: &mut Rng, len: usize, max_live: usize) -> Vec<Api> {
  let mut live: Vec<u64> = Vec::new();
  let mut out = Vec::new();
  let mut call = 0u64;
  let mut ver = 0u64;
  while out.len() < len {
    let r = rng.below(100);
    // with several handles allowed, open them early and often so that commits of different
    // handles interleave (caches of live documents go stale across other handles' commits)
    let open_p = if max_live > 1 { 22 } else { 8 };
    if live.is_empty() || (r < open_p && live.len() < max_live) {
      let h = (1..=3u64).find(|h| !live.contains(h)).unwrap_or(1);
      if !live.contains(&h) {
        live.push(h);
      }
      out.push(Api::NewWriter(h));
      continue;
    }
    let h = *rng.pick(&live);
    let a = if r < 45 {
      call += 1;
      ver += 1;
      Api::Add(h, call, rng.below(IDS.len() as u64), ver)
    } else if r < 60 {
      call += 1;
      Api::Del(h, call, rng.below(IDS.len() as u64))
    } else if r < 80 {
      Api::Commit(h)
    } else if r < 84 {
      Api::Rollback(h)
    } else if r < 88 {
      live.retain(|x| *x != h);
      Api::Drop(h)
    } else if r < 96 {
      Api::Compact
    } else {
      live.clear();
      Api::Reopen
    };
    out.push(a);
  }
  out
}

pub struct Sys {
  pub idx: Option<Index>,
  pub writers: BTreeMap<u64, IndexWriter>,
  pub opts: IndexOptions,
  pub mem: Option<Arc<dyn Storage>>,
}

pub fn doc(id: u64, ver: u64) -> searchlite_core::api::types::Document {
  crate::fixtures::doc(serde_json::json!({"_id": IDS[id as usize], "body": format!("w{} common", ver % 3), "tag": "t", "n": ver}))
}

pub fn apply(sys: &mut Sys, a: &Api) -> Result<(), String> {
  let e = |x: anyhow::Error| x.to_string();
  match a {
    Api::NewWriter(h) => {
      sys.writers.remove(h);
      let w = sys.idx.as_ref().unwrap().writer().map_err(e)?;
      sys.writers.insert(*h, w);
    }
    Api::Add(h, _, id, v) => {
      sys.writers.get_mut(h).unwrap().add_document(&doc(*id, *v)).map_err(e)?;
    }
    Api::Del(h, _, id) => {
      sys.writers.get_mut(h).unwrap().delete_document(IDS[*id as usize]).map_err(e)?;
    }
    Api::Commit(h) => sys.writers.get_mut(h).unwrap().commit().map_err(e)?,
    Api::Rollback(h) => sys.writers.get_mut(h).unwrap().rollback().map_err(e)?,
    Api::Drop(h) => {
      sys.writers.remove(h);
    }
    Api::Compact => sys.idx.as_ref().unwrap().compact().map_err(e)?,
    Api::Reopen => {
      sys.writers.clear();
      sys.idx = None;
      let idx = match &sys.mem {
        Some(st) => Index::open_with_storage(sys.opts.clone(), st.clone()).map_err(e)?,
        None => Index::open(sys.opts.clone()).map_err(e)?,
      };
      sys.idx = Some(idx);
    }
  }
  Ok(())
}

