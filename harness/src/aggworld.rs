//! Corpora, commit layouts, aggregation trees and JSON canonicalisation shared by the aggregation
//! engines (C12, C13).  All numeric data is integer- or half-valued so that f64 sums are exact.
use crate::Rng;
use searchlite_core::api::types::{SearchRequest, StorageType};
use serde_json::{json, Value};

pub const COMMON: [&str; 4] = ["alpha", "beta", "gamma", "delta"];
pub const RARE: [&str; 8] = ["rust", "search", "engine", "index", "wal", "merge", "segment", "cursor"];
pub const TAGS: [&str; 5] = ["x", "y", "z", "w", "v"];
pub const CATS: [&str; 6] = ["c0", "c1", "c2", "c3", "c4", "c5"];

#[derive(Clone, Debug)]
pub struct DocSpec {
  pub idx: usize,
  pub body: Vec<&'static str>,
  pub tag: Option<&'static str>,
  pub cats: Vec<&'static str>,
  pub n: Option<i64>,
  pub ms: Vec<i64>,
  pub price: Option<f64>,
}

pub fn ext_id(idx: usize) -> String {
  format!("d{idx:04}")
}

pub fn idx_of(ext: &str) -> Option<usize> {
  ext.strip_prefix('d').and_then(|s| s.parse().ok())
}

/// text `body`; fast keyword `tag` (single) and `cats` (multi); fast i64 `n` (single) and `ms`
/// (multi); fast f64 `price`.
pub fn schema() -> searchlite_core::Schema {
  serde_json::from_value(json!({
    "doc_id_field": "_id",
    "text_fields": [{"name":"body","analyzer":"default","stored":true,"indexed":true}],
    "keyword_fields": [
      {"name":"tag","stored":true,"indexed":true,"fast":true},
      {"name":"cats","stored":true,"indexed":true,"fast":true}],
    "numeric_fields": [
      {"name":"n","i64":true,"fast":true,"stored":true},
      {"name":"ms","i64":true,"fast":true,"stored":true},
      {"name":"price","i64":false,"fast":true,"stored":true}],
    "nested_fields": [],
    "vector_fields": []
  }))
  .expect("agg schema")
}

pub fn gen_doc(rng: &mut Rng, idx: usize) -> DocSpec {
  let mut body = Vec::new();
  for _ in 0..(1 + rng.below(3)) {
    body.push(*rng.pick(&COMMON[..]));
  }
  for _ in 0..rng.below(3) {
    // skewed: low indices are more frequent
    let k = (rng.below(8) * rng.below(8) / 8) as usize;
    body.push(RARE[k]);
  }
  let tag = if rng.chance(1, 8) { None } else { Some(TAGS[(rng.below(5) * rng.below(5) / 5) as usize]) };
  let mut cats = Vec::new();
  for _ in 0..rng.below(4) {
    let c = *rng.pick(&CATS[..]);
    if !cats.contains(&c) {
      cats.push(c);
    }
  }
  let n = if rng.chance(1, 8) { None } else { Some(rng.range(-3, 20)) };
  let mut ms = Vec::new();
  if rng.chance(1, 8) {
    // values stay in document order in the column: leave a bucket and come back to it
    let v = rng.range(0, 8) * 5;
    ms = vec![v, v + 20, v + if rng.chance(1, 2) { 0 } else { 1 }, v + 25, v];
  } else {
    for _ in 0..rng.below(5) {
      ms.push(rng.range(0, 12) * 5);
    }
  }
  let price = if rng.chance(1, 6) { None } else { Some(rng.range(-30, 60) as f64 / 2.0) };
  DocSpec { idx, body, tag, cats, n, ms, price }
}

pub fn doc_json(d: &DocSpec) -> Value {
  let mut m = serde_json::Map::new();
  m.insert("_id".into(), json!(ext_id(d.idx)));
  m.insert("body".into(), json!(d.body.join(" ")));
  if let Some(t) = d.tag {
    m.insert("tag".into(), json!(t));
  }
  if !d.cats.is_empty() {
    m.insert("cats".into(), json!(d.cats));
  }
  if let Some(n) = d.n {
    m.insert("n".into(), json!(n));
  }
  if !d.ms.is_empty() {
    m.insert("ms".into(), json!(d.ms));
  }
  if let Some(p) = d.price {
    m.insert("price".into(), json!(p));
  }
  Value::Object(m)
}

/// A commit layout: the documents of each commit (one segment each, internal order = id order)
/// and the documents deleted by a final delete-only commit.
#[derive(Clone, Debug)]
pub struct Layout {
  pub batches: Vec<Vec<usize>>,
  pub deleted: Vec<usize>,
}

pub fn gen_layout(rng: &mut Rng, ndocs: usize, nseg: usize, deleted: &[usize]) -> Layout {
  let mut batches: Vec<Vec<usize>> = vec![Vec::new(); nseg.max(1)];
  for i in 0..ndocs {
    let k = rng.below(nseg.max(1) as u64) as usize;
    batches[k].push(i);
  }
  batches.retain(|b| !b.is_empty());
  Layout { batches, deleted: deleted.to_vec() }
}

pub struct World {
  pub dir: tempfile::TempDir,
  pub index: searchlite_core::Index,
}

pub fn build(docs: &[DocSpec], layout: &Layout) -> World {
  let dir = crate::fixtures::scratch();
  let index = searchlite_core::Index::create(
    dir.path(),
    schema(),
    crate::fixtures::opts(dir.path(), StorageType::Filesystem),
  )
  .expect("create index");
  {
    let mut w = index.writer().expect("writer");
    for b in layout.batches.iter() {
      for &i in b.iter() {
        w.add_document(&crate::fixtures::doc(doc_json(&docs[i]))).expect("add");
      }
      w.commit().expect("commit");
    }
    if !layout.deleted.is_empty() {
      for &i in layout.deleted.iter() {
        w.delete_document(&ext_id(i)).expect("delete");
      }
      w.commit().expect("commit deletes");
    }
  }
  World { dir, index }
}

pub fn request(v: Value) -> SearchRequest {
  serde_json::from_value(v).expect("search request json")
}

// ---------------------------------------------------------------- aggregation trees

#[derive(Default, Debug, Clone)]
pub struct AggStats {
  pub kinds: std::collections::BTreeMap<String, usize>,
  pub max_depth: usize,
  pub top_hits: bool,
}

fn note(st: &mut AggStats, k: &str, depth: usize) {
  *st.kinds.entry(k.to_string()).or_insert(0) += 1;
  st.max_depth = st.max_depth.max(depth);
}

pub fn gen_filter(rng: &mut Rng, depth: usize) -> Value {
  match rng.below(if depth == 0 { 3 } else { 6 }) {
    0 => json!({"KeywordEq": {"field": "tag", "value": *rng.pick(&TAGS[..])}}),
    1 => json!({"KeywordIn": {"field": "cats", "values": [*rng.pick(&CATS[..]), *rng.pick(&CATS[..])]}}),
    2 => {
      let lo = rng.range(-3, 12);
      json!({"I64Range": {"field": "n", "min": lo, "max": lo + rng.range(0, 12)}})
    }
    3 => json!({"And": [gen_filter(rng, depth - 1), gen_filter(rng, depth - 1)]}),
    4 => json!({"Or": [gen_filter(rng, depth - 1), gen_filter(rng, depth - 1)]}),
    _ => json!({"Not": gen_filter(rng, depth - 1)}),
  }
}

/// One aggregation of the exact kinds, with sub-aggregations down to `depth` levels.
pub fn gen_agg(rng: &mut Rng, depth: usize, level: usize, top_hits: bool, st: &mut AggStats) -> Value {
  let bucket = depth > 1 && rng.chance(3, 5) || (depth == 1 && rng.chance(2, 5));
  let mut v = if bucket {
    match rng.below(6) {
      5 => {
        note(st, "rare_terms", level);
        let mut m = json!({"type": "rare_terms", "field": *rng.pick(&["tag", "cats"][..]), "max_doc_count": 1 + rng.below(4)});
        if rng.chance(1, 2) {
          m["size"] = json!(1 + rng.below(4));
        }
        m
      }
      0 | 1 => {
        note(st, "terms", level);
        let field = *rng.pick(&["tag", "cats"][..]);
        let mut m = json!({"type": "terms", "field": field});
        if rng.chance(2, 3) {
          m["size"] = json!(1 + rng.below(4));
        }
        if rng.chance(1, 3) {
          m["shard_size"] = json!(1 + rng.below(5));
        }
        if rng.chance(1, 2) {
          m["min_doc_count"] = json!(rng.below(4));
        }
        if rng.chance(1, 3) {
          m["missing"] = json!("none");
        }
        m
      }
      2 => {
        note(st, "range", level);
        let field = *rng.pick(&["n", "price", "ms"][..]);
        let a = rng.range(-2, 8);
        let b = a + rng.range(1, 10);
        let mut ranges = vec![json!({"key": "lo", "to": a as f64}), json!({"from": a as f64, "to": b as f64})];
        if rng.chance(1, 2) {
          ranges.push(json!({"key": "hi", "from": b as f64}));
        }
        if rng.chance(1, 3) {
          ranges.push(json!({"from": (a + 1) as f64, "to": (b + 3) as f64}));
        }
        let mut m = json!({"type": "range", "field": field, "keyed": rng.chance(1, 3), "ranges": ranges});
        if rng.chance(1, 4) {
          m["missing"] = json!(0);
        }
        m
      }
      3 => {
        note(st, "histogram", level);
        let field = *rng.pick(&["n", "price", "ms"][..]);
        let mut m = json!({"type": "histogram", "field": field, "interval": *rng.pick(&[1.0, 2.0, 2.5, 5.0, 10.0][..])});
        if rng.chance(1, 3) {
          m["offset"] = json!(*rng.pick(&[0.5, 1.0, 2.0][..]));
        }
        if rng.chance(1, 2) {
          m["min_doc_count"] = json!(rng.below(4));
        }
        if rng.chance(1, 4) {
          let lo = rng.range(-10, 5);
          m["extended_bounds"] = json!({"min": lo as f64, "max": (lo + rng.range(5, 40)) as f64});
        }
        if rng.chance(1, 5) {
          m["missing"] = json!(0.0);
        }
        m
      }
      _ => {
        note(st, "filter", level);
        json!({"type": "filter", "filter": gen_filter(rng, 1)})
      }
    }
  } else {
    let nfield = *rng.pick(&["n", "price", "ms"][..]);
    match rng.below(if top_hits { 7 } else { 6 }) {
      0 => {
        note(st, "stats", level);
        json!({"type": "stats", "field": nfield})
      }
      1 => {
        note(st, "extended_stats", level);
        json!({"type": "extended_stats", "field": nfield})
      }
      2 => {
        note(st, "value_count", level);
        let mut m = json!({"type": "value_count", "field": nfield});
        if rng.chance(1, 3) {
          m["missing"] = json!(0);
        }
        m
      }
      3 => {
        note(st, "cardinality", level);
        json!({"type": "cardinality", "field": *rng.pick(&["tag", "cats", "n", "ms"][..])})
      }
      4 => {
        note(st, "percentiles", level);
        json!({"type": "percentiles", "field": nfield, "percents": [0.0, 25.0, 50.0, 90.0, 100.0]})
      }
      5 => {
        note(st, "percentile_ranks", level);
        json!({"type": "percentile_ranks", "field": nfield, "values": [0.0, 5.0, 10.0]})
      }
      _ => {
        note(st, "top_hits", level);
        st.top_hits = true;
        let sort = match rng.below(3) {
          0 => json!([]),
          1 => json!([{"field": "n", "order": "desc"}]),
          _ => json!([{"field": "_score"}, {"field": "tag", "order": "asc"}]),
        };
        json!({"type": "top_hits", "size": 1 + rng.below(3), "sort": sort})
      }
    }
  };
  if bucket && depth > 1 {
    let mut subs = serde_json::Map::new();
    for k in 0..(1 + rng.below(2)) {
      subs.insert(format!("s{k}"), gen_agg(rng, depth - 1, level + 1, top_hits, st));
    }
    v["aggs"] = Value::Object(subs);
  }
  v
}

pub fn gen_aggs(rng: &mut Rng, depth: usize, top_hits: bool, st: &mut AggStats) -> Value {
  let mut m = serde_json::Map::new();
  for k in 0..(1 + rng.below(3)) {
    m.insert(format!("a{k}"), gen_agg(rng, depth, 1, top_hits, st));
  }
  Value::Object(m)
}

// ---------------------------------------------------------------- canonical JSON comparison

/// Structural equality with numbers compared at relative tolerance `tol` (0.0 = exact).
pub fn json_close(a: &Value, b: &Value, tol: f64) -> bool {
  match (a, b) {
    (Value::Number(x), Value::Number(y)) => {
      if x == y {
        return true;
      }
      let (x, y) = (x.as_f64().unwrap_or(f64::NAN), y.as_f64().unwrap_or(f64::NAN));
      if x == y {
        return true;
      }
      (x - y).abs() <= tol * x.abs().max(y.abs()).max(1e-300)
    }
    (Value::Array(x), Value::Array(y)) => x.len() == y.len() && x.iter().zip(y).all(|(p, q)| json_close(p, q, tol)),
    (Value::Object(x), Value::Object(y)) => {
      x.len() == y.len() && x.iter().all(|(k, p)| y.get(k).map(|q| json_close(p, q, tol)).unwrap_or(false))
    }
    _ => a == b,
  }
}

/// Removes every `score` member of top_hits hits (returns the stripped value and whether any
/// was present).
pub fn strip_top_hit_scores(v: &Value) -> Value {
  match v {
    Value::Object(m) => {
      let is_top_hit = m.contains_key("doc_id") && m.contains_key("score");
      let mut out = serde_json::Map::new();
      for (k, x) in m.iter() {
        if is_top_hit && k == "score" {
          continue;
        }
        out.insert(k.clone(), strip_top_hit_scores(x));
      }
      Value::Object(out)
    }
    Value::Array(a) => Value::Array(a.iter().map(strip_top_hit_scores).collect()),
    _ => v.clone(),
  }
}
