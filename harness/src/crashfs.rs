//! Shadow file system for crash experiments (C01, C02).
//!
//! The cfg(searchlite_verif) trace of `FsStorage` is replayed into an in-memory model of ONE
//! directory that distinguishes, per inode, the volatile content from the content as of its last
//! fsync, and, for the directory, the entries made durable by the last directory fsync from the
//! operations still pending.  Crash images are then built by the rules of DESIGN.md section 3.3:
//!   * directory = durable directory + ANY SUBSET of the pending directory operations, applied in
//!     their original order (an unsynced entry may be dropped independently of the others);
//!   * file content = durable content, or volatile content, or - for an append-only growth - the
//!     durable content followed by a prefix of the unsynced tail, optionally zero-filled.
use searchlite_core::storage::verif_trace::FsOp;
use std::collections::BTreeMap;
use std::path::Path;

#[derive(Clone, Debug)]
pub struct Inode {
  pub vol: Vec<u8>,
  pub dur: Vec<u8>,
}

#[derive(Clone, Debug)]
pub enum DirOp {
  Create(String, usize),
  Rename(String, String),
  Unlink(String),
}

#[derive(Clone, Debug, Default)]
pub struct ShadowFs {
  pub inodes: Vec<Inode>,
  pub vdir: BTreeMap<String, usize>,
  pub ddir: BTreeMap<String, usize>,
  pub pend: Vec<DirOp>,
}

#[derive(Clone, Debug, PartialEq, Eq, PartialOrd, Ord)]
pub struct Image {
  pub files: BTreeMap<String, Vec<u8>>,
}

fn leaf(p: &Path) -> String {
  p.file_name().map(|s| s.to_string_lossy().to_string()).unwrap_or_default()
}

impl ShadowFs {
  fn ensure(&mut self, name: &str) -> usize {
    if let Some(i) = self.vdir.get(name) {
      return *i;
    }
    self.inodes.push(Inode { vol: Vec::new(), dur: Vec::new() });
    let i = self.inodes.len() - 1;
    self.vdir.insert(name.to_string(), i);
    self.pend.push(DirOp::Create(name.to_string(), i));
    i
  }

  /// Applies one traced operation. Returns false for operations that do not change the state.
  pub fn apply(&mut self, op: &FsOp) -> bool {
    match op {
      FsOp::OpenRead(_) | FsOp::ReadAll(_) | FsOp::Mark(_) => false,
      FsOp::Create(p) => {
        let i = self.ensure(&leaf(p));
        self.inodes[i].vol.clear(); // O_TRUNC
        true
      }
      FsOp::OpenAppend(p) => {
        let had = self.vdir.contains_key(&leaf(p));
        self.ensure(&leaf(p));
        !had
      }
      FsOp::Write { path, offset, data } => {
        let i = self.ensure(&leaf(path));
        let f = &mut self.inodes[i].vol;
        let off = offset.map(|o| o as usize).unwrap_or(f.len());
        if f.len() < off + data.len() {
          f.resize(off + data.len(), 0);
        }
        f[off..off + data.len()].copy_from_slice(data);
        true
      }
      FsOp::SetLen(p, n) => {
        let i = self.ensure(&leaf(p));
        self.inodes[i].vol.resize(*n as usize, 0);
        true
      }
      FsOp::Fsync(p) => {
        if let Some(i) = self.vdir.get(&leaf(p)).copied() {
          self.inodes[i].dur = self.inodes[i].vol.clone();
        }
        true
      }
      FsOp::Rename(a, b) => {
        if let Some(i) = self.vdir.remove(&leaf(a)) {
          self.vdir.insert(leaf(b), i);
          self.pend.push(DirOp::Rename(leaf(a), leaf(b)));
        }
        true
      }
      FsOp::DirFsync(_) => {
        self.ddir = self.vdir.clone();
        self.pend.clear();
        true
      }
      FsOp::Unlink(p) => {
        if self.vdir.remove(&leaf(p)).is_some() {
          self.pend.push(DirOp::Unlink(leaf(p)));
        }
        true
      }
      FsOp::RemoveDirAll(_) => false,
    }
  }

  fn dir_with(&self, keep: &[bool]) -> BTreeMap<String, usize> {
    let mut d = self.ddir.clone();
    for (k, op) in self.pend.iter().enumerate() {
      if !keep[k] {
        continue;
      }
      match op {
        DirOp::Create(n, i) => {
          d.insert(n.clone(), *i);
        }
        DirOp::Rename(a, b) => {
          if let Some(i) = d.remove(a) {
            d.insert(b.clone(), i);
          }
        }
        DirOp::Unlink(n) => {
          d.remove(n);
        }
      }
    }
    d
  }

  /// Subsets of the pending directory operations to try: all of them when few, otherwise
  /// none / all / every prefix / every "all but one".
  fn subsets(&self) -> Vec<Vec<bool>> {
    let n = self.pend.len();
    let mut out: Vec<Vec<bool>> = Vec::new();
    if n <= 4 {
      for m in 0..(1u32 << n) {
        out.push((0..n).map(|k| m & (1 << k) != 0).collect());
      }
    } else {
      for k in 0..=n {
        out.push((0..n).map(|j| j < k).collect());
      }
      for k in 0..n {
        out.push((0..n).map(|j| j != k).collect());
      }
    }
    out.sort();
    out.dedup();
    out
  }

  /// Crash images at the current point, each with a short description.
  /// `tear_positions`: how many byte positions of an unsynced append-only tail to try per file.
  pub fn images(&self, tear_positions: usize, rng: &mut crate::Rng) -> Vec<(Image, String)> {
    let mut out: Vec<(Image, String)> = Vec::new();
    for keep in self.subsets() {
      let dir = self.dir_with(&keep);
      let kd: String = keep.iter().map(|b| if *b { '1' } else { '0' }).collect();
      for variant in ["dur", "vol"] {
        let mut files = BTreeMap::new();
        for (n, i) in dir.iter() {
          let ino = &self.inodes[*i];
          files.insert(n.clone(), if variant == "dur" { ino.dur.clone() } else { ino.vol.clone() });
        }
        out.push((Image { files }, format!("dir={kd} data={variant}")));
      }
      // torn appends
      for (n, i) in dir.iter() {
        let ino = &self.inodes[*i];
        if ino.vol.len() > ino.dur.len() && ino.vol[..ino.dur.len()] == ino.dur[..] {
          let tail = ino.vol.len() - ino.dur.len();
          let mut cuts: Vec<usize> = Vec::new();
          if tail <= tear_positions {
            cuts.extend(1..tail);
          } else {
            for _ in 0..tear_positions {
              cuts.push(1 + rng.below((tail - 1) as u64) as usize);
            }
          }
          cuts.sort();
          cuts.dedup();
          for c in cuts {
            for zero in [false, true] {
              let mut files = BTreeMap::new();
              for (n2, i2) in dir.iter() {
                files.insert(n2.clone(), self.inodes[*i2].dur.clone());
              }
              let mut content = ino.vol[..ino.dur.len() + c].to_vec();
              if zero {
                content.resize(ino.vol.len(), 0);
              }
              files.insert(n.clone(), content);
              out.push((Image { files }, format!("dir={kd} torn {n} +{c}{}", if zero { " zero-filled" } else { "" })));
            }
          }
        }
      }
    }
    out.sort();
    out.dedup_by(|a, b| a.0 == b.0);
    out
  }
}

impl Image {
  pub fn materialize(&self, dir: &Path) {
    std::fs::create_dir_all(dir).unwrap();
    for (n, c) in self.files.iter() {
      std::fs::write(dir.join(n), c).unwrap();
    }
  }
}
