//! Deterministic thread scheduler on top of the `searchlite_core::verif::sched` hook (C05, C06).
//!
//! Worker threads are spawned through [`Ctl::spawn`]; each carries a small thread id.  Every
//! schedule point reached by a worker is appended to one global log as `(thread, section, stage)`;
//! when the client's `park` predicate says so the worker blocks there until the controller (the
//! main thread) lets it continue.  The controller runs exactly one worker at a time
//! ([`Ctl::step`] = release one parked worker and wait until every worker is parked or finished
//! again), so a schedule is a list of choices and a run is reproduced by replaying them.
//! Threads that are not workers (the main thread) pass through all points unlogged.
//! Several controllers can be active at once (each worker belongs to the controller that spawned
//! it), so independent scenarios can be explored in parallel inside one process.
use std::cell::{Cell, RefCell};
use std::collections::BTreeMap;
use std::sync::{Arc, Condvar, Mutex};
use std::time::{Duration, Instant};

#[derive(Clone, Debug, PartialEq, Eq)]
pub struct Ev {
  pub tid: usize,
  pub section: String,
  pub stage: String,
  pub data: String,
}

#[derive(Clone, Debug, PartialEq, Eq)]
pub enum TState {
  Running,
  Parked(String, String),
  Finished,
}

pub type ParkPred = Arc<dyn Fn(usize, &str, &str) -> bool + Send + Sync>;

struct State {
  threads: BTreeMap<usize, TState>,
  log: Vec<Ev>,
  park: ParkPred,
  /// set when the controller gave up (stuck run): every worker passes through from then on
  abandon: bool,
}

pub struct Ctl {
  st: Mutex<State>,
  cv: Condvar,
}

thread_local! {
  static TID: Cell<Option<usize>> = const { Cell::new(None) };
  static BUSY: Cell<bool> = const { Cell::new(false) };
  static CTL: RefCell<Option<Arc<Ctl>>> = const { RefCell::new(None) };
}

static INSTALL: std::sync::Once = std::sync::Once::new();

impl Ctl {
  /// Creates a controller; the process-wide hook callback (installed once) dispatches every
  /// point to the controller of the calling worker thread.
  pub fn install() -> Arc<Ctl> {
    INSTALL.call_once(|| {
      searchlite_core::verif::sched::install(Some(Arc::new(|section: &str, stage: &str| {
        let ctl = CTL.with(|c| c.borrow().clone());
        if let Some(ctl) = ctl {
          ctl.point(section, stage, "");
        }
      })));
    });
    Arc::new(Ctl {
      st: Mutex::new(State { threads: BTreeMap::new(), log: Vec::new(), park: Arc::new(|_, _, _| false), abandon: false }),
      cv: Condvar::new(),
    })
  }

  /// Forgets all threads and the log; sets the park predicate of the next run.
  pub fn reset(&self, park: ParkPred) {
    let mut st = self.st.lock().unwrap();
    st.threads.clear();
    st.log.clear();
    st.park = park;
    st.abandon = false;
  }

  /// A schedule point of the calling thread (also callable from harness code).
  pub fn point(&self, section: &str, stage: &str, data: &str) {
    let Some(tid) = TID.with(|t| t.get()) else { return };
    if BUSY.with(|b| b.get()) {
      return;
    }
    let mut st = self.st.lock().unwrap();
    st.log.push(Ev { tid, section: section.into(), stage: stage.into(), data: data.into() });
    if st.abandon || !(st.park)(tid, section, stage) {
      return;
    }
    st.threads.insert(tid, TState::Parked(section.into(), stage.into()));
    self.cv.notify_all();
    while matches!(st.threads.get(&tid), Some(TState::Parked(..))) && !st.abandon {
      st = self.cv.wait(st).unwrap();
    }
  }

  /// Log-only event of the calling worker.
  pub fn note(&self, section: &str, stage: &str, data: &str) {
    let Some(tid) = TID.with(|t| t.get()) else { return };
    let mut st = self.st.lock().unwrap();
    st.log.push(Ev { tid, section: section.into(), stage: stage.into(), data: data.into() });
  }

  /// Runs `f` on the calling worker with all schedule points disabled (for oracle reads).
  pub fn quiet<T>(f: impl FnOnce() -> T) -> T {
    let old = BUSY.with(|b| b.replace(true));
    let r = f();
    BUSY.with(|b| b.set(old));
    r
  }

  /// Spawns worker `tid`; it parks at ("thread","start") before running `f`.
  pub fn spawn<F: FnOnce() + Send + 'static>(self: &Arc<Self>, tid: usize, f: F) -> std::thread::JoinHandle<()> {
    self.st.lock().unwrap().threads.insert(tid, TState::Running);
    let ctl = self.clone();
    std::thread::spawn(move || {
      TID.with(|t| t.set(Some(tid)));
      CTL.with(|c| *c.borrow_mut() = Some(ctl.clone()));
      ctl.force_park(tid, "thread", "start");
      let r = std::panic::catch_unwind(std::panic::AssertUnwindSafe(f));
      CTL.with(|c| *c.borrow_mut() = None);
      let mut st = ctl.st.lock().unwrap();
      st.log.push(Ev { tid, section: "thread".into(), stage: if r.is_ok() { "finish".into() } else { "panic".into() }, data: String::new() });
      st.threads.insert(tid, TState::Finished);
      ctl.cv.notify_all();
    })
  }

  fn force_park(&self, tid: usize, section: &str, stage: &str) {
    let mut st = self.st.lock().unwrap();
    st.log.push(Ev { tid, section: section.into(), stage: stage.into(), data: String::new() });
    st.threads.insert(tid, TState::Parked(section.into(), stage.into()));
    self.cv.notify_all();
    while matches!(st.threads.get(&tid), Some(TState::Parked(..))) && !st.abandon {
      st = self.cv.wait(st).unwrap();
    }
  }

  /// Waits until no worker is running. `false` = timed out (a worker is blocked on a real lock).
  pub fn wait_quiescent(&self, timeout: Duration) -> bool {
    let deadline = Instant::now() + timeout;
    let mut st = self.st.lock().unwrap();
    loop {
      if st.threads.values().all(|s| *s != TState::Running) {
        return true;
      }
      let now = Instant::now();
      if now >= deadline {
        return false;
      }
      st = self.cv.wait_timeout(st, deadline - now).unwrap().0;
    }
  }

  /// Parked workers with the point they are parked at, by thread id.
  pub fn parked(&self) -> Vec<(usize, String, String)> {
    let st = self.st.lock().unwrap();
    st.threads
      .iter()
      .filter_map(|(t, s)| match s {
        TState::Parked(a, b) => Some((*t, a.clone(), b.clone())),
        _ => None,
      })
      .collect()
  }

  /// Lets worker `tid` run to its next parking point (or its end).
  pub fn step(&self, tid: usize, timeout: Duration) -> bool {
    {
      let mut st = self.st.lock().unwrap();
      st.threads.insert(tid, TState::Running);
      self.cv.notify_all();
    }
    self.wait_quiescent(timeout)
  }

  /// Gives up on the run: every worker passes through all further points.
  pub fn abandon(&self) {
    let mut st = self.st.lock().unwrap();
    st.abandon = true;
    for (_, s) in st.threads.iter_mut() {
      if matches!(s, TState::Parked(..)) {
        *s = TState::Running;
      }
    }
    self.cv.notify_all();
  }

  pub fn log(&self) -> Vec<Ev> {
    self.st.lock().unwrap().log.clone()
  }

  pub fn log_len(&self) -> usize {
    self.st.lock().unwrap().log.len()
  }
}

/// One decision of a run: which of the enabled workers (sorted by id) was chosen.
#[derive(Clone, Debug)]
pub struct Choice {
  pub chosen: usize,
  pub options: Vec<usize>,
  /// the worker that ran in the previous step, when it is still enabled (switching away from it
  /// is a preemption)
  pub prev_enabled: Option<usize>,
}

/// Depth-first enumeration of schedules with an optional preemption bound.
pub struct Dfs {
  pub prefix: Vec<usize>,
  pub bound: Option<usize>,
  pub done: bool,
}

impl Dfs {
  pub fn new(bound: Option<usize>) -> Self {
    Dfs { prefix: Vec::new(), bound, done: false }
  }

  /// The choice at `depth` given the enabled workers: the recorded prefix, else "keep running the
  /// previous worker when possible, otherwise the smallest id".
  pub fn choose(&self, depth: usize, options: &[usize], prev: Option<usize>) -> usize {
    if let Some(c) = self.prefix.get(depth) {
      if options.contains(c) {
        return *c;
      }
    }
    match prev {
      Some(p) if options.contains(&p) => p,
      _ => options[0],
    }
  }

  fn preemptions(trace: &[Choice]) -> usize {
    trace.iter().filter(|c| matches!(c.prev_enabled, Some(p) if p != c.chosen)).count()
  }

  /// Computes the next prefix from the trace of the run just finished.
  pub fn advance(&mut self, trace: &[Choice]) {
    let mut i = trace.len();
    while i > 0 {
      i -= 1;
      let c = &trace[i];
      // order of exploration at a node: default choice first, then the remaining options ascending
      let default = match c.prev_enabled {
        Some(p) => p,
        None => c.options[0],
      };
      let mut order = vec![default];
      order.extend(c.options.iter().copied().filter(|o| *o != default));
      let pos = order.iter().position(|o| *o == c.chosen).unwrap_or(order.len());
      let used = Self::preemptions(&trace[..i]);
      for cand in order.iter().skip(pos + 1) {
        let extra = usize::from(matches!(c.prev_enabled, Some(p) if p != *cand));
        if self.bound.map(|b| used + extra <= b).unwrap_or(true) {
          self.prefix = trace[..i].iter().map(|c| c.chosen).collect();
          self.prefix.push(*cand);
          return;
        }
      }
    }
    self.done = true;
  }
}
