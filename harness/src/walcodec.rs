//! Reusable correspondence engine for the WAL codec (model: coq/theories/Wal/Model.v).
//!
//! Two kinds of cases, both against the real `searchlite_core::wal::Wal`:
//!   kind 0  a random record sequence is appended through `Wal::append_add_doc / append_commit /
//!           append_delete_doc_id`; the file bytes are compared with the model's `encode_all`,
//!           and `Wal::replay` / `Wal::last_pending_ops` with the model's `replay` / `pending`;
//!   kind 1  arbitrary bytes (valid logs that are truncated, bit-flipped, zero-filled, spliced
//!           with crafted records: unknown tags, undecodable payloads, commit with a payload,
//!           non-canonical and over-long length varints, huge lengths; plus plain garbage) are
//!           written to a file and handed to `Wal::replay` / `last_pending_ops` under
//!           `catch_unwind`.
//! Records are interned as (tag, payload bytes); an AddDoc entry returned by the implementation
//! is re-serialised with `serde_json::to_vec` (the same function `append_add_doc` uses).
//! The payload decoders are oracles: the engine lists the (tag, payload) pairs it placed in the
//! input that the real decoders reject (`undec`), and the canonical re-serialisation of decodable
//! non-canonical AddDoc payloads (`canon`).

use crate::{coq, Rng};
use searchlite_core::api::types::Document;
use searchlite_core::storage::FsStorage;
use searchlite_core::util::checksum::checksum;
use searchlite_core::wal::{Wal, WalEntry};
use std::collections::BTreeMap;
use std::path::Path;
use std::sync::Arc;

pub type Rec = (u8, Vec<u8>);

pub fn varint(mut v: u64) -> Vec<u8> {
  // independent of searchlite's writer on purpose (used only to craft kind-1 inputs)
  let mut out = Vec::new();
  loop {
    let b = (v & 0x7f) as u8;
    v >>= 7;
    if v == 0 {
      out.push(b);
      return out;
    }
    out.push(b | 0x80);
  }
}

pub fn frame(len_bytes: &[u8], tag: u8, payload: &[u8]) -> Vec<u8> {
  let mut out = len_bytes.to_vec();
  out.push(tag);
  out.extend_from_slice(payload);
  let mut body = vec![tag];
  body.extend_from_slice(payload);
  out.extend_from_slice(&checksum(&body).to_le_bytes());
  out
}

pub fn entry_to_rec(e: &WalEntry) -> Rec {
  match e {
    WalEntry::AddDoc(d) => (1, serde_json::to_vec(d).expect("serialise doc")),
    WalEntry::Commit => (2, Vec::new()),
    WalEntry::DeleteDocId(s) => (3, s.as_bytes().to_vec()),
  }
}

pub fn rec_lit(r: &Rec) -> String {
  coq::pair(&r.0.to_string(), &coq::bytes(&r.1))
}

pub fn recs_lit(rs: &[Rec]) -> String {
  let v: Vec<String> = rs.iter().map(rec_lit).collect();
  coq::list(&v)
}

/// What the real decoders say about a payload placed in the input.
pub fn decodable(tag: u8, payload: &[u8]) -> bool {
  match tag {
    1 => serde_json::from_slice::<Document>(payload).is_ok(),
    3 => std::str::from_utf8(payload).is_ok(),
    _ => true,
  }
}

pub fn canonical(payload: &[u8]) -> Option<Vec<u8>> {
  let d = serde_json::from_slice::<Document>(payload).ok()?;
  let c = serde_json::to_vec(&d).ok()?;
  if c != payload {
    Some(c)
  } else {
    None
  }
}

pub struct Observed {
  pub panic: bool,
  pub entries: Vec<Rec>,
  pub pending: Vec<Rec>,
}

/// Runs the real `Wal::replay` and `Wal::last_pending_ops` on the file.
pub fn observe(dir: &Path, file: &Path) -> Observed {
  let storage = FsStorage::new(dir.to_path_buf());
  let r = std::panic::catch_unwind(std::panic::AssertUnwindSafe(|| {
    let e = Wal::replay(&storage, file).expect("Wal::replay returned Err");
    let p = Wal::last_pending_ops(&storage, file).expect("Wal::last_pending_ops returned Err");
    (e, p)
  }));
  match r {
    Ok((e, p)) => Observed {
      panic: false,
      entries: e.iter().map(entry_to_rec).collect(),
      pending: p.iter().map(entry_to_rec).collect(),
    },
    Err(_) => Observed { panic: true, entries: vec![], pending: vec![] },
  }
}

fn rand_string(rng: &mut Rng) -> String {
  let alphabet = ["a", "b", "z", "0", "-", " ", "é", "日", "\"", "\\", "\u{1F600}", "id"];
  let n = rng.below(6);
  let mut s = String::new();
  for _ in 0..n {
    let w: &str = *rng.pick(&alphabet[..]);
    s.push_str(w);
  }
  s
}

fn rand_doc(rng: &mut Rng) -> Document {
  let mut fields = BTreeMap::new();
  fields.insert("_id".to_string(), serde_json::json!(format!("d{}", rng.below(50))));
  let extra = rng.below(4);
  for k in 0..extra {
    let v = match rng.below(6) {
      0 => serde_json::json!(rand_string(rng)),
      1 => serde_json::json!(rng.range(-1000, 1000)),
      2 => serde_json::json!([rand_string(rng), rand_string(rng)]),
      3 => serde_json::json!({"k": rng.below(3), "s": rand_string(rng)}),
      4 => serde_json::json!(null),
      _ => serde_json::json!(rng.below(100) as f64 / 4.0),
    };
    fields.insert(format!("f{k}"), v);
  }
  // occasionally a long field so that the length varint takes two bytes
  if rng.chance(1, 6) {
    fields.insert("body".into(), serde_json::json!("lorem ipsum ".repeat(12 + rng.below(8) as usize)));
  }
  Document { fields }
}

pub fn rand_rec(rng: &mut Rng) -> Rec {
  match rng.below(10) {
    0..=4 => (1, serde_json::to_vec(&rand_doc(rng)).unwrap()),
    5..=6 => (2, vec![]),
    _ => (3, rand_string(rng).into_bytes()),
  }
}

/// Appends the records through the real API and returns the file bytes.
pub fn append_real(dir: &Path, file: &Path, recs: &[Rec]) -> Vec<u8> {
  let storage = Arc::new(FsStorage::new(dir.to_path_buf()));
  let mut wal = Wal::open(storage, file).expect("Wal::open");
  for (tag, payload) in recs {
    match tag {
      1 => {
        let d: Document = serde_json::from_slice(payload).expect("doc");
        wal.append_add_doc(&d).expect("append_add_doc");
      }
      2 => wal.append_commit().expect("append_commit"),
      3 => wal
        .append_delete_doc_id(std::str::from_utf8(payload).expect("utf8"))
        .expect("append_delete"),
      _ => unreachable!(),
    }
  }
  wal.sync().expect("sync");
  drop(wal);
  std::fs::read(file).expect("read wal")
}

pub struct CodecCases {
  pub cases: Vec<String>,
  pub meta: Vec<serde_json::Value>,
  pub distribution: BTreeMap<String, u64>,
}

pub const CASE_TYPE: &str = "codec_case";
pub const HEADER: &str = "From SL Require Import Base.Bytes Base.Varint Wal.Model.\n";

#[allow(clippy::too_many_arguments)]
pub fn case_lit(
  kind: u8,
  recs: &[Rec],
  bytes: &[u8],
  undec: &[Rec],
  canon: &[(Vec<u8>, Vec<u8>)],
  o: &Observed,
) -> String {
  let canon_l: Vec<String> =
    canon.iter().map(|(a, b)| coq::pair(&coq::bytes(a), &coq::bytes(b))).collect();
  format!(
    "{{| cc_kind := {}; cc_recs := {}; cc_bytes := {}; cc_undec := {}; cc_canon := {}; cc_panic := {}; cc_entries := {}; cc_pending := {} |}}",
    kind,
    recs_lit(recs),
    coq::bytes(bytes),
    recs_lit(undec),
    coq::list(&canon_l),
    coq::b(o.panic),
    recs_lit(&o.entries),
    recs_lit(&o.pending)
  )
}

/// Crafted records for kind-1 inputs: returns bytes and the (tag, payload) placed.
fn crafted(rng: &mut Rng, dist: &mut BTreeMap<String, u64>) -> (Vec<u8>, Rec) {
  let mut bump = |k: &str| *dist.entry(format!("crafted_{k}")).or_insert(0) += 1;
  match rng.below(9) {
    0 => {
      bump("unknown_tag");
      let tag = *rng.pick(&[0u8, 4, 9, 255][..]);
      let p = rand_string(rng).into_bytes();
      (frame(&varint(p.len() as u64), tag, &p), (tag, p))
    }
    1 => {
      bump("add_not_json");
      let p = rng.pick(&[&b"{not json"[..], &b""[..], &b"[1,2]"[..], &b"\"str\""[..], &b"{\"a\":}"[..]][..]).to_vec();
      (frame(&varint(p.len() as u64), 1, &p), (1, p))
    }
    2 => {
      bump("delete_bad_utf8");
      let p = rng.pick(&[&[0xffu8, 0x61][..], &[0xc3][..], &[0x61, 0xed, 0xa0, 0x80][..]][..]).to_vec();
      (frame(&varint(p.len() as u64), 3, &p), (3, p))
    }
    3 => {
      bump("commit_with_payload");
      let p = rand_string(rng).into_bytes();
      (frame(&varint(p.len() as u64), 2, &p), (2, p))
    }
    4 => {
      bump("noncanonical_varint");
      let p = rand_string(rng).into_bytes();
      // |p| < 128: one payload byte of length, padded with redundant continuation groups
      let pad = 1 + rng.below(8) as usize; // total length bytes 2..=9
      let mut lb = vec![(p.len() as u8) | 0x80];
      for _ in 0..pad - 1 {
        lb.push(0x80);
      }
      lb.push(0x00);
      (frame(&lb, 3, &p), (3, p))
    }
    5 => {
      bump("noncanonical_json");
      let p = rng.pick(&[&b"{ \"_id\" : \"x\" }"[..], &b"{\"b\":1,\"a\":2}"[..], &b"{\"a\":1.0e0}"[..], &b"{\"a\":1,\"a\":2}"[..]][..]).to_vec();
      (frame(&varint(p.len() as u64), 1, &p), (1, p))
    }
    6 => {
      bump("tenth_byte_high_bits");
      // ten length bytes whose last one has bits that do not fit 64 bits: the value keeps only bit 0
      let mut lb = vec![0x80u8; 9];
      lb[0] = 0x82;
      lb.push(*rng.pick(&[0x02u8, 0x7e, 0x04][..]));
      let p = vec![b'x', b'y'];
      (frame(&lb, 3, &p), (3, p))
    }
    7 => {
      bump("valid_add");
      let r = (1u8, serde_json::to_vec(&rand_doc(rng)).unwrap());
      (frame(&varint(r.1.len() as u64), 1, &r.1), r)
    }
    _ => {
      bump("valid_delete");
      let p = rand_string(rng).into_bytes();
      (frame(&varint(p.len() as u64), 3, &p), (3, p))
    }
  }
}

pub fn generate(rng: &mut Rng, n: usize, dir: &Path) -> CodecCases {
  let mut out = CodecCases { cases: vec![], meta: vec![], distribution: BTreeMap::new() };
  let file = dir.join("codec_wal.log");
  for ci in 0..n {
    let _ = std::fs::remove_file(&file);
    let kind0 = ci % 3 == 0;
    if kind0 {
      let nrec = rng.below(7) as usize;
      let recs: Vec<Rec> = (0..nrec).map(|_| rand_rec(rng)).collect();
      let bytes = append_real(dir, &file, &recs);
      let o = observe(dir, &file);
      *out.distribution.entry("kind0_api_append".into()).or_insert(0) += 1;
      *out.distribution.entry(format!("kind0_records_{}", nrec.min(4))).or_insert(0) += 1;
      out.meta.push(serde_json::json!({"kind":"api_append","records":nrec,"bytes":bytes.len(),
        "panic":o.panic,"entries":o.entries.len(),"pending":o.pending.len(),"nt": nrec >= 2}));
      out.cases.push(case_lit(0, &recs, &bytes, &[], &[], &o));
      continue;
    }
    // kind 1: start from a valid prefix written by the real code, then splice / mutate
    let nrec = rng.below(4) as usize;
    let recs: Vec<Rec> = (0..nrec).map(|_| rand_rec(rng)).collect();
    let mut bytes = if nrec > 0 { append_real(dir, &file, &recs) } else { Vec::new() };
    let mut placed: Vec<Rec> = recs.clone();
    let shape = rng.below(12);
    let label = match shape {
      0 => {
        let cut = rng.below(bytes.len() as u64 + 1) as usize;
        bytes.truncate(cut);
        "truncate"
      }
      1 | 2 => {
        if !bytes.is_empty() {
          let i = rng.below(bytes.len() as u64) as usize;
          bytes[i] ^= *rng.pick(&[0x01u8, 0x80, 0xff, 0x10][..]);
        }
        "byte_flip"
      }
      3 => {
        let cut = rng.below(bytes.len() as u64 + 1) as usize;
        bytes.truncate(cut);
        bytes.extend(std::iter::repeat(0u8).take(rng.below(20) as usize));
        "torn_zero_fill"
      }
      4 | 5 | 6 => {
        for _ in 0..1 + rng.below(3) {
          let (b, r) = crafted(rng, &mut out.distribution);
          bytes.extend_from_slice(&b);
          placed.push(r);
        }
        if rng.chance(1, 2) {
          let more = rand_rec(rng);
          bytes.extend_from_slice(&frame(&varint(more.1.len() as u64), more.0, &more.1));
          placed.push(more);
        }
        "crafted_records"
      }
      7 => {
        // >= 10 continuation bytes: shift overflow in read_u64
        let k = 10 + rng.below(6) as usize;
        bytes.extend(std::iter::repeat(*rng.pick(&[0x80u8, 0xff, 0x81][..])).take(k));
        bytes.push(0x01);
        bytes.extend_from_slice(&[1, 2, 3, 4, 5, 6]);
        "overlong_varint"
      }
      8 => {
        // exactly ten bytes (maximal u64) and other huge lengths, no payload behind them
        let v = *rng.pick(&[u64::MAX, u64::MAX - 3, 1 << 63, (1 << 32) + 5, 1 << 40][..]);
        bytes.extend_from_slice(&varint(v));
        bytes.extend_from_slice(&[1, 0, 0, 0, 0, 0, 0][..rng.below(8) as usize]);
        "huge_length"
      }
      9 => {
        bytes.extend(std::iter::repeat(0x80u8).take(1 + rng.below(9) as usize));
        "unterminated_varint"
      }
      10 => {
        bytes.extend(std::iter::repeat(0u8).take(rng.below(24) as usize));
        "zero_fill"
      }
      _ => {
        let k = rng.below(40) as usize;
        for _ in 0..k {
          bytes.push(rng.below(256) as u8);
        }
        "garbage_tail"
      }
    };
    std::fs::write(&file, &bytes).expect("write wal");
    let o = observe(dir, &file);
    let mut undec: Vec<Rec> = Vec::new();
    let mut canon: Vec<(Vec<u8>, Vec<u8>)> = Vec::new();
    for r in &placed {
      if !decodable(r.0, &r.1) && !undec.contains(r) {
        undec.push(r.clone());
      }
      if r.0 == 1 {
        if let Some(c) = canonical(&r.1) {
          if !canon.iter().any(|(a, _)| a == &r.1) {
            canon.push((r.1.clone(), c));
          }
        }
      }
    }
    *out.distribution.entry(format!("kind1_{label}")).or_insert(0) += 1;
    if o.panic {
      *out.distribution.entry("observed_panic".into()).or_insert(0) += 1;
    }
    out.meta.push(serde_json::json!({"kind":label,"valid_prefix_records":nrec,"bytes":bytes.len(),
      "bytes_hex": bytes.iter().map(|b| format!("{b:02x}")).collect::<String>(),
      "panic":o.panic,"entries":o.entries.len(),"pending":o.pending.len(),"nt": true}));
    out.cases.push(case_lit(1, &[], &bytes, &undec, &canon, &o));
  }
  let _ = std::fs::remove_file(&file);
  out
}
