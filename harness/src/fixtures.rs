//! Small index fixtures shared by several engines.
use searchlite_core::api::types::{Document, IndexOptions, StorageType};
use std::path::Path;

pub fn opts(path: &Path, storage: StorageType) -> IndexOptions {
  IndexOptions {
    path: path.to_path_buf(),
    create_if_missing: true,
    enable_positions: true,
    bm25_k1: 1.2,
    bm25_b: 0.75,
    storage,
    vector_defaults: None,
  }
}

pub fn doc(v: serde_json::Value) -> Document {
  let fields = v
    .as_object()
    .expect("object")
    .iter()
    .map(|(k, v)| (k.clone(), v.clone()))
    .collect();
  Document { fields }
}

/// Scratch directory on tmpfs when available (removed on drop).
pub fn scratch() -> tempfile::TempDir {
  let base = if Path::new("/dev/shm").is_dir() { "/dev/shm" } else { "/tmp" };
  tempfile::Builder::new().prefix("slv_").tempdir_in(base).expect("tempdir")
}

/// text `body`, fast+stored keyword `tag`, fast+stored i64 `n`.
pub fn basic_schema() -> searchlite_core::Schema {
  serde_json::from_value(serde_json::json!({
    "doc_id_field": "_id",
    "text_fields": [{"name":"body","analyzer":"default","stored":true,"indexed":true}],
    "keyword_fields": [{"name":"tag","stored":true,"indexed":true,"fast":true}],
    "numeric_fields": [{"name":"n","i64":true,"fast":true,"stored":true}],
    "nested_fields": [],
    "vector_fields": []
  }))
  .expect("basic schema")
}

/// match_all over a fresh reader: (doc id, stored `n`) sorted by id (duplicates kept).
pub fn contents(idx: &searchlite_core::Index) -> anyhow::Result<Vec<(String, i64)>> {
  let reader = idx.reader()?;
  let req: searchlite_core::api::types::SearchRequest = serde_json::from_value(serde_json::json!({
    "query": {"type": "match_all"}, "limit": 10000, "return_stored": true, "highlight_field": null
  }))?;
  let res = reader.search(&req)?;
  let mut out: Vec<(String, i64)> = res
    .hits
    .iter()
    .map(|h| {
      let n = h
        .fields
        .as_ref()
        .and_then(|f| f.get("n"))
        .and_then(|v| v.as_i64())
        .unwrap_or(-1);
      // documents written by hist::doc carry body = "w{n % 3} common" and tag = "t": a stored
      // field that does not belong to the version shown is reported as version -2
      let body_ok = match h.fields.as_ref().and_then(|f| f.get("body")).and_then(|v| v.as_str()) {
        Some(b) if b.starts_with('w') && b.ends_with(" common") => b == format!("w{} common", n.rem_euclid(3)),
        _ => true,
      };
      (h.doc_id.clone(), if body_ok { n } else { -2 })
    })
    .collect();
  out.sort();
  Ok(out)
}
