//! A live searchlite-http server started through the crate's public entry point
//! (`searchlite_http::run(ServeArgs)`) on a loopback port, and a raw HTTP/1.1 client over
//! `std::net::TcpStream` (one connection per request, `Connection: close`).
use clap::Parser;
use std::io::{Read, Write};
use std::net::{SocketAddr, TcpListener, TcpStream};
use std::path::Path;
use std::time::{Duration, Instant};

pub struct Server {
  pub port: u16,
  task: tokio::task::JoinHandle<anyhow::Result<()>>,
}

pub fn runtime() -> tokio::runtime::Runtime {
  tokio::runtime::Builder::new_multi_thread()
    .worker_threads(4)
    .enable_all()
    .build()
    .expect("tokio runtime")
}

fn free_port() -> u16 {
  let l = TcpListener::bind("127.0.0.1:0").expect("bind loopback");
  l.local_addr().unwrap().port()
}

impl Server {
  /// `extra`: additional command-line flags of searchlite-http (e.g. `--max-body-bytes 4096`).
  pub fn start(rt: &tokio::runtime::Runtime, index: &Path, extra: &[&str]) -> Server {
    for _attempt in 0..20 {
      let port = free_port();
      let mut argv: Vec<String> = vec![
        "searchlite-http".into(),
        "--index".into(),
        index.to_string_lossy().to_string(),
        "--bind".into(),
        format!("127.0.0.1:{port}"),
        "--shutdown-grace-secs".into(),
        "0".into(),
      ];
      argv.extend(extra.iter().map(|s| s.to_string()));
      let args = searchlite_http::ServeArgs::parse_from(argv);
      let task = rt.spawn(searchlite_http::run(args));
      let t0 = Instant::now();
      let addr: SocketAddr = format!("127.0.0.1:{port}").parse().unwrap();
      while t0.elapsed() < Duration::from_secs(10) {
        if task.is_finished() {
          break;
        }
        if TcpStream::connect_timeout(&addr, Duration::from_millis(200)).is_ok() {
          return Server { port, task };
        }
        std::thread::sleep(Duration::from_millis(2));
      }
      task.abort();
    }
    panic!("could not start searchlite-http on a loopback port");
  }

  /// false once `run` has returned (the server went down).
  pub fn alive(&self) -> bool {
    !self.task.is_finished()
  }

  pub fn stop(self) {
    self.task.abort();
  }
}

#[derive(Debug, Clone)]
pub struct Reply {
  pub status: u16,
  pub headers: Vec<(String, String)>,
  pub body: Vec<u8>,
}

impl Reply {
  pub fn header(&self, name: &str) -> Option<&str> {
    self.headers.iter().find(|(k, _)| k == name).map(|(_, v)| v.as_str())
  }
  pub fn json(&self) -> Option<serde_json::Value> {
    serde_json::from_slice(&self.body).ok()
  }
}

/// Why no response could be read.
#[derive(Debug, Clone)]
pub enum NoReply {
  Connect(String),
  Empty,           // connection closed without a single byte
  Reset(String),   // read error before a complete head
  Malformed(String),
  Timeout,
}

/// Sends exactly `raw` and reads until the peer closes.
pub fn exchange(port: u16, raw: &[u8], read_timeout: Duration, is_head: bool) -> Result<Reply, NoReply> {
  let addr: SocketAddr = format!("127.0.0.1:{port}").parse().unwrap();
  let mut s = TcpStream::connect_timeout(&addr, Duration::from_secs(5)).map_err(|e| NoReply::Connect(e.to_string()))?;
  s.set_read_timeout(Some(read_timeout)).ok();
  s.set_write_timeout(Some(Duration::from_secs(20))).ok();
  s.set_nodelay(true).ok();
  // the server may answer (413) and close before the whole body is written: write errors are
  // not failures by themselves, the reply decides
  let _ = s.write_all(raw);
  let _ = s.flush();
  let mut buf = Vec::new();
  let mut chunk = [0u8; 16384];
  let mut read_err: Option<std::io::Error> = None;
  loop {
    match s.read(&mut chunk) {
      Ok(0) => break,
      Ok(n) => {
        buf.extend_from_slice(&chunk[..n]);
        if complete(&buf, is_head) {
          break;
        }
      }
      Err(e) => {
        read_err = Some(e);
        break;
      }
    }
  }
  if buf.is_empty() {
    return Err(match read_err {
      None => NoReply::Empty,
      Some(e) if matches!(e.kind(), std::io::ErrorKind::WouldBlock | std::io::ErrorKind::TimedOut) => NoReply::Timeout,
      Some(e) => NoReply::Reset(e.to_string()),
    });
  }
  parse_reply(&buf, is_head).map_err(|m| match read_err {
    Some(e) => NoReply::Reset(format!("{m}; {e}")),
    None => NoReply::Malformed(m),
  })
}

fn head_end(buf: &[u8]) -> Option<usize> {
  buf.windows(4).position(|w| w == b"\r\n\r\n")
}

fn complete(buf: &[u8], is_head: bool) -> bool {
  match parse_reply(buf, is_head) {
    Ok(r) => is_head || r.header("content-length").is_some() || r.header("transfer-encoding").is_some(),
    Err(_) => false,
  }
}

fn parse_reply(buf: &[u8], is_head: bool) -> Result<Reply, String> {
  let he = head_end(buf).ok_or_else(|| "incomplete response head".to_string())?;
  let head = std::str::from_utf8(&buf[..he]).map_err(|_| "non-utf8 head".to_string())?;
  let mut lines = head.split("\r\n");
  let status_line = lines.next().unwrap_or("");
  let mut parts = status_line.splitn(3, ' ');
  let ver = parts.next().unwrap_or("");
  if !ver.starts_with("HTTP/1.") {
    return Err(format!("bad status line {status_line:?}"));
  }
  let status: u16 = parts.next().unwrap_or("").parse().map_err(|_| format!("bad status line {status_line:?}"))?;
  let mut headers = Vec::new();
  for l in lines {
    if let Some((k, v)) = l.split_once(':') {
      headers.push((k.trim().to_ascii_lowercase(), v.trim().to_string()));
    }
  }
  let rest = &buf[he + 4..];
  let r0 = Reply { status, headers, body: Vec::new() };
  if is_head {
    // a HEAD answer has the headers of the GET answer and no body
    return Ok(Reply { body: rest.to_vec(), ..r0 });
  }
  let body = if r0.header("transfer-encoding").map(|v| v.to_ascii_lowercase().contains("chunked")).unwrap_or(false) {
    dechunk(rest)?
  } else if let Some(cl) = r0.header("content-length") {
    let n: usize = cl.parse().map_err(|_| "bad content-length".to_string())?;
    if rest.len() < n {
      return Err(format!("body shorter than content-length ({} < {n})", rest.len()));
    }
    rest[..n].to_vec()
  } else {
    rest.to_vec()
  };
  Ok(Reply { body, ..r0 })
}

fn dechunk(mut b: &[u8]) -> Result<Vec<u8>, String> {
  let mut out = Vec::new();
  loop {
    let le = b.windows(2).position(|w| w == b"\r\n").ok_or("chunk size line incomplete")?;
    let sz = std::str::from_utf8(&b[..le]).map_err(|_| "chunk size")?;
    let sz = usize::from_str_radix(sz.split(';').next().unwrap_or("").trim(), 16).map_err(|_| "chunk size")?;
    b = &b[le + 2..];
    if sz == 0 {
      return Ok(out);
    }
    if b.len() < sz + 2 {
      return Err("chunk incomplete".into());
    }
    out.extend_from_slice(&b[..sz]);
    b = &b[sz + 2..];
  }
}

/// Ordinary request with a Content-Length body.
pub fn request(port: u16, method: &str, path: &str, headers: &[(&str, &str)], body: &[u8]) -> Result<Reply, NoReply> {
  let mut raw = Vec::new();
  raw.extend_from_slice(format!("{method} {path} HTTP/1.1\r\nHost: localhost\r\nConnection: close\r\n").as_bytes());
  for (k, v) in headers {
    raw.extend_from_slice(format!("{k}: {v}\r\n").as_bytes());
  }
  raw.extend_from_slice(format!("Content-Length: {}\r\n\r\n", body.len()).as_bytes());
  raw.extend_from_slice(body);
  exchange(port, &raw, Duration::from_secs(40), method == "HEAD")
}

pub fn post_json(port: u16, path: &str, body: &str) -> Result<Reply, NoReply> {
  request(port, "POST", path, &[("Content-Type", "application/json")], body.as_bytes())
}

/// Schema used by the HTTP engines: text `body`, keyword `tag`, i64 `n` (all stored).
pub fn schema_json() -> serde_json::Value {
  serde_json::json!({
    "doc_id_field": "_id",
    "text_fields": [{"name":"body","analyzer":"default","stored":true,"indexed":true}],
    "keyword_fields": [{"name":"tag","stored":true,"indexed":true,"fast":true}],
    "numeric_fields": [{"name":"n","i64":true,"fast":true,"stored":true}],
    "nested_fields": [],
    "vector_fields": []
  })
}
