#!/usr/bin/env python3
"""Panic-site inventory translator for C16.

Lists the lexical sites in the files anchored by C16 at which Rust code can panic:
  unwrap   `.unwrap()`                      expect  `.expect(`
  macro    `panic!` `unreachable!` `todo!` `unimplemented!`
  assert   `assert!` `assert_eq!` `assert_ne!`      dassert `debug_assert*!` (debug builds only)
  index    `expr[...]` indexing / slicing (`a[i]`, `s[a..b]`, `f()[0]`)
Each site is keyed by (file, enclosing fn, normalised source line); identical keys are counted.
`#[cfg(test)]` modules are skipped.  Not detected lexically (documented in notes/C16.md): integer
division by zero, arithmetic overflow (only panics with overflow-checks), `RefCell` borrows,
allocation failure, stack overflow, panics inside dependencies.

  panic_sites.py --repo /repo --baseline corpus/C16/panic_sites.json          compare (exit 0/1)
  panic_sites.py --repo /repo --baseline ... --write                           (re)generate, keeping dispositions
"""
import argparse
import json
import os
import re
import sys

FILES = [
    "searchlite-core/src/api/reader.rs",
    "searchlite-core/src/query/wand.rs",
    "searchlite-core/src/query/script.rs",
    "searchlite-core/src/query/aggs/mod.rs",
    "searchlite-core/src/index/highlight.rs",
]

PATTERNS = [
    ("unwrap", re.compile(r"\.unwrap\(\)")),
    ("expect", re.compile(r"\.expect\(")),
    ("macro", re.compile(r"\b(panic|unreachable|todo|unimplemented)!\s*\(")),
    ("dassert", re.compile(r"\bdebug_assert(_eq|_ne)?!\s*\(")),
    ("assert", re.compile(r"(?<![a-z_])assert(_eq|_ne)?!\s*\(")),
    ("index", re.compile(r"(?<![#!'])(?<=[A-Za-z0-9_\)\]\?])\[(?!\s*\])")),
]


def blank_strings_and_comments(src):
    """Replaces the contents of string/char literals and comments by spaces (same length, newlines kept)."""
    out = list(src)
    i, n = 0, len(src)
    while i < n:
        c = src[i]
        if src.startswith("//", i):
            j = src.find("\n", i)
            j = n if j < 0 else j
            for k in range(i, j):
                out[k] = " "
            i = j
        elif src.startswith("/*", i):
            depth, j = 1, i + 2
            while j < n and depth > 0:
                if src.startswith("/*", j):
                    depth += 1
                    j += 2
                elif src.startswith("*/", j):
                    depth -= 1
                    j += 2
                else:
                    j += 1
            for k in range(i, j):
                if out[k] != "\n":
                    out[k] = " "
            i = j
        elif c == "r" and re.match(r'r#*"', src[i:i + 8]) and (i == 0 or not (src[i - 1].isalnum() or src[i - 1] == "_")):
            m = re.match(r'r(#*)"', src[i:])
            hashes = m.group(1)
            end = src.find('"' + hashes, i + len(m.group(0)))
            end = n if end < 0 else end + 1 + len(hashes)
            for k in range(i + len(m.group(0)), end - 1 - len(hashes)):
                if out[k] != "\n":
                    out[k] = " "
            i = end
        elif c == '"':
            j = i + 1
            while j < n and src[j] != '"':
                j += 2 if src[j] == "\\" else 1
            for k in range(i + 1, min(j, n)):
                if out[k] != "\n":
                    out[k] = " "
            i = j + 1
        elif c == "'":
            # char literal ('x', '\n', '\u{..}') vs lifetime ('a)
            m = re.match(r"'(\\.[^']*|[^\\'])'", src[i:i + 12])
            if m:
                for k in range(i + 1, i + len(m.group(0)) - 1):
                    out[k] = " "
                i += len(m.group(0))
            else:
                i += 1
        else:
            i += 1
    return "".join(out)


def scan(repo):
    sites = {}
    for rel in FILES:
        path = os.path.join(repo, rel)
        raw = open(path, encoding="utf-8").read()
        clean = blank_strings_and_comments(raw)
        raw_lines = raw.split("\n")
        lines = clean.split("\n")
        depth = 0
        fn_stack = []          # (name, depth at which its body opened)
        pending_fn = None
        skip_until_depth = None  # inside #[cfg(test)] item
        pending_cfg_test = False
        for ln, line in enumerate(lines):
            stripped = line.strip()
            if re.match(r"#\[cfg\(test\)\]", stripped):
                pending_cfg_test = True
            m = re.search(r"\bfn\s+([A-Za-z_][A-Za-z0-9_]*)", line)
            if m:
                pending_fn = m.group(1)
            # sites on this line (before brace bookkeeping, so one-line fns are attributed right)
            if skip_until_depth is None and not stripped.startswith("#["):
                cur_fn = pending_fn if pending_fn and "{" in line and m else (fn_stack[-1][0] if fn_stack else "<top>")
                for kind, pat in PATTERNS:
                    cnt = len(pat.findall(line))
                    if kind == "assert":
                        cnt = len([x for x in pat.finditer(line)])
                    if cnt:
                        snippet = re.sub(r"\s+", " ", raw_lines[ln].strip())
                        key = (rel, cur_fn, kind, snippet)
                        sites[key] = sites.get(key, 0) + cnt
            for ch in line:
                if ch == "{":
                    if pending_cfg_test and skip_until_depth is None:
                        skip_until_depth = depth
                        pending_cfg_test = False
                    if pending_fn is not None:
                        fn_stack.append((pending_fn, depth))
                        pending_fn = None
                    depth += 1
                elif ch == "}":
                    depth -= 1
                    if fn_stack and fn_stack[-1][1] == depth:
                        fn_stack.pop()
                    if skip_until_depth is not None and depth == skip_until_depth:
                        skip_until_depth = None
                elif ch == ";" and pending_fn is not None and depth == (fn_stack[-1][1] + 1 if fn_stack else 0):
                    pending_fn = None  # trait method declaration without body
            if pending_cfg_test and stripped and not stripped.startswith("#[") and "{" not in line and stripped.endswith(";"):
                pending_cfg_test = False
    return sites


def key_str(k):
    return "\x1f".join(k)


def main():
    ap = argparse.ArgumentParser()
    ap.add_argument("--repo", required=True)
    ap.add_argument("--baseline", required=True)
    ap.add_argument("--write", action="store_true")
    ap.add_argument("--report", default=None)
    a = ap.parse_args()
    sites = scan(a.repo)
    old = {}
    if os.path.exists(a.baseline):
        for e in json.load(open(a.baseline))["sites"]:
            old[(e["file"], e["fn"], e["kind"], e["snippet"])] = e
    if a.write:
        out = []
        for k in sorted(sites):
            e = {"file": k[0], "fn": k[1], "kind": k[2], "snippet": k[3], "count": sites[k],
                 "disposition": old.get(k, {}).get("disposition", "unmodelled: covered by the fuzzing tie only")}
            out.append(e)
        json.dump({"files": FILES, "sites": out}, open(a.baseline, "w"), indent=1, ensure_ascii=False)
        print(f"wrote {len(out)} site keys ({sum(sites.values())} sites)")
        return 0
    new = [k for k in sites if k not in old or sites[k] > old[k]["count"]]
    gone = [k for k in old if k not in sites or sites[k] < old[k]["count"]]
    by_disp = {}
    for k, e in old.items():
        d = e["disposition"].split(":")[0]
        by_disp[d] = by_disp.get(d, 0) + e["count"]
    rep = {
        "site_keys": len(sites), "sites": sum(sites.values()), "by_disposition": by_disp,
        "new_or_moved": [{"file": k[0], "fn": k[1], "kind": k[2], "snippet": k[3], "count": sites[k]} for k in sorted(new)],
        "no_longer_present": [{"file": k[0], "fn": k[1], "kind": k[2], "snippet": k[3]} for k in sorted(gone)],
    }
    if a.report:
        json.dump(rep, open(a.report, "w"), indent=1, ensure_ascii=False)
    print(json.dumps({k: rep[k] for k in ("site_keys", "sites", "by_disposition")}))
    for e in rep["new_or_moved"]:
        print(f"NEW-SITE {e['file']} fn {e['fn']} [{e['kind']}] {e['snippet']}")
    return 1 if new else 0


if __name__ == "__main__":
    sys.exit(main())
