#!/usr/bin/env python3
"""Regenerates MANIFEST.json from the MANIFEST_ENTRY of every checks/cXX.py and lib/not_applicable.json."""
import importlib
import json
import os
import sys

HERE = os.path.dirname(os.path.dirname(os.path.abspath(__file__)))
sys.path.insert(0, os.path.join(HERE, "lib"))
sys.path.insert(0, HERE)

props = [json.loads(l) for l in open(os.path.join(HERE, "properties.jsonl"))]
na_reasons = json.load(open(os.path.join(HERE, "lib", "not_applicable.json")))
checks, na, engines = [], [], []
for p in props:
    pid = p["id"]
    path = os.path.join(HERE, "checks", pid.lower() + ".py")
    if os.path.exists(path):
        mod = importlib.import_module("checks." + pid.lower())
        e = mod.MANIFEST_ENTRY
        checks.append({
            "property_id": pid,
            "quick_cmd": f"./check {pid} --tier quick",
            "thorough_cmd": f"./check {pid} --tier thorough",
            "evidence_file": f"/verif/evidence/{pid}.json",
            "replay_cmd_template": f"./check {pid} --replay {{path}}",
            "engine": e.get("engine", "slv-" + pid.lower()),
            "level_claimed": {"category": e.get("category", "proof"), "text": e["text"], "design_ref": e.get("design_ref", f"DESIGN.md section 4 {pid}")},
            "level_note": e["note"],
            "technique": e.get("technique", "machine-checked proof in Coq 8.16 about a Gallina model + checked model/code correspondence (vm_compute on engine-generated cases)"),
        })
        engines.append({"name": "slv-" + pid.lower(), "path": f"harness/src/bin/{pid.lower()}.rs", "serves_properties": [pid],
                        "kind_free_text": "Rust engine driving the real implementation; emits Gallina case files evaluated against the Coq model"})
    else:
        na.append({"property_id": pid, "reason": na_reasons.get(pid, "no check built yet in this round; see DESIGN.md section 4 for the plan")})
man = {
    "version": 1,
    "setup_cmd": "./setup.sh",
    "hooks": {
        "guard": "searchlite_verif",
        "enable": "RUSTFLAGS=\"--cfg searchlite_verif\" (set by lib/vlib.py when it builds /verif/harness against /repo)",
        "baseline_off_cmd": "cd /repo && cargo test --workspace --no-fail-fast --offline",
        "source_commits": json.load(open(os.path.join(HERE, "lib", "hook_commits.json"))),
        "add_only": True,
    },
    "engines": engines,
    "checks": checks,
    "notes": "All checks: Coq proof about a hand-written Gallina model (coq/theories), tied to /repo on every run by a differential "
             "correspondence check (harness/). See DESIGN.md.",
    "not_applicable": na,
}
json.dump(man, open(os.path.join(HERE, "MANIFEST.json"), "w"), indent=1)
print(f"{len(checks)} checks, {len(na)} not claimed")
