#!/bin/bash
# run_seed.sh <ID> [tier] [seed-dir]: applies seeded/<ID>/patch.diff to /repo, runs ./check <ID>, restores /repo.
# Prints the check's verdict lines; exit status 0 when the check turned red (caught), 1 when it stayed green.
id="$1"; tier="${2:-quick}"; sd="${3:-$1}"
cd /verif
if ! git -C /repo diff --quiet; then echo "/repo has local changes; refusing"; exit 2; fi
git -C /repo apply "/verif/seeded/$sd/patch.diff" || { echo "patch does not apply"; exit 2; }
out=$(./check "$id" --tier "$tier" 2>&1 | grep -E "^\[check\]|VIOLATION|KNOWN-FINDING" | cut -c1-220)
git -C /repo checkout -- . 
echo "$out"
echo "$out" | grep -q "^VIOLATION" && exit 0 || exit 1
