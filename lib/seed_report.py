#!/usr/bin/env python3
"""Merges verify.json / check_output.txt into seeded/<ID>/meta.json and prints the DESIGN.md table."""
import json, os, re
HERE = os.path.dirname(os.path.dirname(os.path.abspath(__file__)))
FIRST_MISSED = {
  "C02": "the specification's lower bound ignored the commit attempt's own log sync; ECrash now carries 'log synced in call'",
  "C03": "fault histories rarely retried a faulted commit through the same handle; a commit is now often followed by a second one",
  "C04": "few interleaved commits of simultaneously live handles; known-class masking: a stale-class history whose observation also disagrees with the concrete machine is now a violation",
  "C05": "no scenario kept a handle across a compaction and then deleted through it; a fixed scenario does",
  "C11": "the engine skipped replays whose plan hash equalled the cursor's (using the implementation's hash as oracle); foreignness is now decided on the sort specifications and one key's direction is flipped",
  "C12": "composite aggregations were not modelled; C12/Composite.v + composite cases with negative histogram keys",
  "C14": "no fixed world with a nested nullable indexed/fast unstored property",
  "C24": "no long malformed lines with multi-byte characters",
  "C25": "ids never contained inner whitespace",
  "C28": "indexes were always created through absolute paths; one case in three now uses relative paths",
}
PRE = "strengthened after reading the seed and before the first run against it (whether the earlier machinery would have caught it was not tried): "
FIRST_MISSED.update({
  "C01-r2": PRE + "a quarter of the C01 histories now start from a directory with a stale MANIFEST.tmp (leftover of an interrupted store)",
  "C02-r2": PRE + "trace correspondence: every completed call's operations on wal.log must be the model's micro-operations in order (C02.History.traces_run)",
  "C05-r2": "missed at first: no scenario had a handle commit without writing a segment, another handle commit a document once, and the first handle then delete it; a second fixed scenario does",
  "C07-r2": PRE + "a third of the C07 queries are decorated with boosts, including boost 0 (matching must not depend on boosts)",
  "C09-r2": "missed at first: every document had a non-empty body; one in sixteen now has none and one an empty one (field length 0)",
  "C10-r2": PRE + "boost 0 added to the boost pool of the sort worlds",
  "C11-r2": PRE + "half of the multi-segment worlds compact directly (no commit in between) before the stale-cursor replay",
  "C12-r2": "missed at first: 2 histograms in 12 worlds and no multi-valued document that leaves a bucket and returns; zig-zag multi-valued documents, quick tier 12 -> 40 worlds",
  "C13-r2": "missed at first: top_hits trees were rare; worlds chosen for top_hits now always contain one (score-, field- or mixed-ordered) and are run field-sorted with and without explain; quick tier 10 -> 36 worlds",
  "C14-r2": PRE + "fixed worlds for a nested keyword that is only a fast column and a nested unstored numeric",
  "C16-r2": "missed at first (twice): fully random requests rarely reach the bucket-filling loops and the generated date bounds were not RFC 3339; one request in twelve is now a well-formed request with one edge-parameter (date_)histogram",
  "C17-r2": PRE + "every file gets flips in its first and last 12 bytes whatever the sample says",
  "C20-r2": "missed at first: sort plans led by _score and broken by a field were rare; added to the plan generator, quick tier 14 -> 40 worlds",
  "C24-r2": PRE + "unknown fields / types / sort fields with long multi-byte names (error reasons that quote request content)",
  "C26-r2": PRE + "multi-byte ids and tags in every response and every capacity whose last byte falls inside a character",
  "C28-r2": PRE + "directory names one of which is a string prefix of the other",
})
rows = []
for pid in sorted(os.listdir(os.path.join(HERE, "seeded"))):
    d = os.path.join(HERE, "seeded", pid)
    mp = os.path.join(d, "meta.json")
    if not os.path.isfile(mp):
        continue
    meta = json.load(open(mp))
    ver = json.load(open(os.path.join(d, "verify.json"))) if os.path.exists(os.path.join(d, "verify.json")) else {}
    out = open(os.path.join(d, "check_output.txt")).read() if os.path.exists(os.path.join(d, "check_output.txt")) else ""
    viol = [l for l in out.splitlines() if l.startswith("VIOLATION")]
    caught = bool(viol)
    kind = "concrete failing input" if any("no-failing-input-found" not in l for l in viol) else ("no-failing-input-found" if viol else "-")
    meta["coordinator_verification"] = {
        "scratch_worktree": "scratch worktree detached at /repo main (removed afterwards), lib/verify_seed.sh",
        "tests_with_patch_passed_failed": ver.get("tests_with_patch_passed_failed"),
        "demo_fails_with_patch": ver.get("demo_exit_with_patch") == 1,
        "demo_passes_without_patch": ver.get("demo_exit_without_patch") == 0,
        "confirmed": ver.get("confirmed"),
    }
    meta["check_run"] = {"cmd": f"lib/run_seed.sh {pid[:3]} quick {pid} (git -C /repo apply seeded/{pid}/patch.diff; ./check {pid[:3]} --tier quick; git -C /repo checkout -- .)",
                         "caught": caught, "verdict_kind": kind, "violation_lines": viol[:3]}
    meta["check_run"].pop("missed_at_first", None)
    meta["check_run"].pop("strengthened_before_first_run", None)
    if pid in FIRST_MISSED:
        if FIRST_MISSED[pid].startswith("strengthened after reading"):
            meta["check_run"]["strengthened_before_first_run"] = FIRST_MISSED[pid]
        else:
            meta["check_run"]["missed_at_first"] = FIRST_MISSED[pid]
    json.dump(meta, open(mp, "w"), indent=1)
    rows.append((pid, meta.get("summary", "")[:150].replace("|", "/"), "yes" if ver.get("confirmed") else str(ver.get("confirmed")), "caught" if caught else "MISSED", kind, (FIRST_MISSED[pid] if FIRST_MISSED[pid].startswith(("strengthened", "missed at first")) else "missed at first: " + FIRST_MISSED[pid]) if pid in FIRST_MISSED else ""))
print("| Seed | Change (abridged) | confirmed | check verdict | how | note |")
print("|---|---|---|---|---|---|")
for r in rows:
    print("| " + " | ".join(r) + " |")
