#!/usr/bin/env python3
"""Merges verify.json / check_output.txt into seeded/<ID>/meta.json and prints the DESIGN.md table."""
import json, os, re
HERE = os.path.dirname(os.path.dirname(os.path.abspath(__file__)))
FIRST_MISSED = {
  "C02": "the specification's lower bound ignored the commit attempt's own log sync; ECrash now carries 'log synced in call'",
  "C03": "fault histories rarely retried a faulted commit through the same handle; a commit is now often followed by a second one",
  "C04": "few interleaved commits of simultaneously live handles; known-class masking: a stale-class history whose observation also disagrees with the concrete machine is now a violation",
  "C05": "no scenario kept a handle across a compaction and then deleted through it; a fixed scenario does",
  "C11": "the engine skipped replays whose plan hash equalled the cursor's (using the implementation's hash as oracle); foreignness is now decided on the sort specifications and one key's direction is flipped",
  "C12": "composite aggregations were not modelled; C12/Composite.v + composite cases with negative histogram keys",
  "C14": "no fixed world with a nested nullable indexed/fast unstored property",
  "C24": "no long malformed lines with multi-byte characters",
  "C25": "ids never contained inner whitespace",
  "C28": "indexes were always created through absolute paths; one case in three now uses relative paths",
}
rows = []
for pid in sorted(os.listdir(os.path.join(HERE, "seeded"))):
    d = os.path.join(HERE, "seeded", pid)
    mp = os.path.join(d, "meta.json")
    if not os.path.isfile(mp):
        continue
    meta = json.load(open(mp))
    ver = json.load(open(os.path.join(d, "verify.json"))) if os.path.exists(os.path.join(d, "verify.json")) else {}
    out = open(os.path.join(d, "check_output.txt")).read() if os.path.exists(os.path.join(d, "check_output.txt")) else ""
    viol = [l for l in out.splitlines() if l.startswith("VIOLATION")]
    caught = bool(viol)
    kind = "concrete failing input" if any("no-failing-input-found" not in l for l in viol) else ("no-failing-input-found" if viol else "-")
    meta["coordinator_verification"] = {
        "scratch_worktree": "/tmp/sv<slot> (detached at /repo main), lib/verify_seed.sh",
        "tests_with_patch_passed_failed": ver.get("tests_with_patch_passed_failed"),
        "demo_fails_with_patch": ver.get("demo_exit_with_patch") == 1,
        "demo_passes_without_patch": ver.get("demo_exit_without_patch") == 0,
        "confirmed": ver.get("confirmed"),
    }
    meta["check_run"] = {"cmd": f"lib/run_seed.sh {pid} (git -C /repo apply seeded/{pid}/patch.diff; ./check {pid} --tier quick; git -C /repo checkout -- .)",
                         "caught": caught, "verdict_kind": kind, "violation_lines": viol[:3]}
    if pid in FIRST_MISSED:
        meta["check_run"]["missed_at_first"] = FIRST_MISSED[pid]
    json.dump(meta, open(mp, "w"), indent=1)
    rows.append((pid, meta.get("summary", "")[:150].replace("|", "/"), "yes" if ver.get("confirmed") else str(ver.get("confirmed")), "caught" if caught else "MISSED", kind, "missed at first: " + FIRST_MISSED[pid] if pid in FIRST_MISSED else ""))
print("| Seed | Change (abridged) | confirmed | check verdict | how | note |")
print("|---|---|---|---|---|---|")
for r in rows:
    print("| " + " | ".join(r) + " |")
