#!/bin/bash
# verify_seed.sh <ID>: in the scratch worktree /tmp/sv (detached at /repo main) confirm that the seeded
# patch compiles, passes the 199 tests, and that its demonstration fails with it and passes without.
id="$1"; slot="${2:-0}"; sd="${3:-$1}"; src="${4:-/tmp/seed}"; d=/verif/seeded/$sd; W=/work/sv$slot; T=/work/sv$slot-target
[ -d $W ] || git -C /repo worktree add -q --detach $W HEAD
cd $W && git checkout -q --detach $(git -C /repo rev-parse HEAD) && git checkout -q -- . && git clean -fdq
cmd=$(python3 -c "import json;print(json.load(open('$d/meta.json'))['demo_cmd'])" | sed "s#$src/$id#$W#g; s#$src/target-$id#$T#g; s#CARGO_TARGET_DIR=[^ ]*#CARGO_TARGET_DIR=$T#g")
mkdir -p $W/seed $W/demo; cp -rf $d/demo* $W/seed/ 2>/dev/null; [ -d $d/demo_dir ] && cp -rf $d/demo_dir/* $W/demo/ 2>/dev/null
failed() { [ "$1" != 0 ] || grep -qE "test result: FAILED|error: test failed|panicked at|VIOLAT" "$2"; }
echo "== demo without patch"; ( eval "$cmd" ) > $W.demo_clean.log 2>&1; rc_clean=$?; failed $rc_clean $W.demo_clean.log && rc_clean=1 || rc_clean=0
git apply $d/patch.diff || { echo "patch does not apply"; exit 2; }
git clean -fdq -- searchlite-core/tests searchlite-http/tests searchlite-cli/tests searchlite-ffi/tests 2>/dev/null
echo "== tests with patch"; CARGO_TARGET_DIR=$T cargo test --workspace --no-fail-fast --offline > $W.tests.log 2>&1
passed=$(grep -E "^test result" $W.tests.log | awk '{p+=$4; f+=$6} END {print p" "f}')
touch $(git diff --name-only) 2>/dev/null
echo "== demo with patch"; ( eval "$cmd" ) > $W.demo_patch.log 2>&1; rc_patch=$?; failed $rc_patch $W.demo_patch.log && rc_patch=1 || rc_patch=0
git checkout -q -- . ; git clean -fdq
echo "$id: tests(passed failed)=$passed demo_rc_without=$rc_clean demo_rc_with=$rc_patch"
python3 - <<PY
import json
json.dump({"property":"$id","tests_with_patch_passed_failed":"$passed","demo_exit_without_patch":$rc_clean,"demo_exit_with_patch":$rc_patch,
  "confirmed": ("$passed"=="199 0") and $rc_clean==0 and $rc_patch!=0, "demo_cmd_run": """$cmd"""}, open("$d/verify.json","w"), indent=1)
PY
