#!/bin/bash
# import_seed.sh <ID>: copies /tmp/seed/<ID>/seed (and demo/) into /verif/seeded/<ID>/
id="$1"; src=/tmp/seed/$id
mkdir -p /verif/seeded/$id
cp -f $src/seed/patch.diff /verif/seeded/$id/patch.diff
cp -f $src/seed/meta.json /verif/seeded/$id/meta.json
for f in $src/seed/demo* ; do [ -e "$f" ] && cp -rf "$f" /verif/seeded/$id/; done
[ -d $src/demo ] && cp -rf $src/demo /verif/seeded/$id/demo_dir
git -C /repo apply --check /verif/seeded/$id/patch.diff && echo "$id: patch applies to /repo main"
