#!/bin/bash
# import_seed.sh <ID>: copies /tmp/seed/<ID>/seed (and demo/) into /verif/seeded/<ID>/
id="$1"; sd="${2:-$1}"; base="${3:-/tmp/seed}"; src=$base/$id
mkdir -p /verif/seeded/$sd
cp -f $src/seed/patch.diff /verif/seeded/$sd/patch.diff
cp -f $src/seed/meta.json /verif/seeded/$sd/meta.json
for f in $src/seed/demo* ; do [ -e "$f" ] && cp -rf "$f" /verif/seeded/$sd/; done
[ -d $src/demo ] && cp -rf $src/demo /verif/seeded/$sd/demo_dir
git -C /repo apply --check /verif/seeded/$sd/patch.diff && echo "$id: patch applies to /repo main"
