"""Shared machinery of the /verif checks.

Flow of one check (DESIGN.md section 2.5):
  GEN     translators (per-property, optional)
  PROVE   make the property's statement file (and everything it needs), audit it
  BUILD   cargo build of the harness engine against /repo's working tree (hooks on)
  TIE     engine runs the implementation, writes (input, observation) cases as Gallina literals;
          coqc evaluates  check_case  on every case with vm_compute
  VERDICT codes: 0 ok | 1 correspondence broken, spec still met | 2 spec violated | 100+k known class k
"""
import hashlib
import json
import os
import re
import shutil
import subprocess
import sys
import tempfile
import time
from concurrent.futures import ThreadPoolExecutor

VERIF = os.path.dirname(os.path.dirname(os.path.abspath(__file__)))
REPO = os.environ.get("SLV_REPO", "/repo")
COQ = os.path.join(VERIF, "coq")
HARNESS = os.path.join(VERIF, "harness")
CACHE = os.path.join(VERIF, ".cache")
TARGET = os.environ.get("SLV_TARGET", os.path.join(CACHE, "target"))
GUARD = "searchlite_verif"
FORBIDDEN = re.compile(
    r"\b(Admitted|admit|Axiom|Axioms|Parameter|Parameters|Conjecture|Conjectures|Hypothesis|Hypotheses|Variable|Variables|"
    r"Admit Obligations|bypass_check|native_compute)\b|Unset\s+(Guard|Positivity|Universe)|type-in-type|impredicative-set"
)

KERNEL_TB = [
    "Coq 8.16.1 kernel (coqc, full .vo build; vm_compute used for closed computations; no native_compute)",
    "Print Assumptions of every property theorem, re-run on every check (expected: Closed under the global context)",
]
TIE_TB = [
    "correspondence check: the Rust engine under /verif/harness (generators, canonicalisation, Gallina literal printer) "
    "and lib/vlib.py (driver); model evaluated inside Coq by vm_compute, no extraction",
    "the Rust toolchain and the hooks guarded by --cfg searchlite_verif (see MANIFEST.hooks)",
]


def log(msg):
    print(f"[check] {msg}", flush=True)


def run(cmd, cwd=None, timeout=1800, env=None, stdin=None):
    e = dict(os.environ)
    if env:
        e.update(env)
    t0 = time.time()
    try:
        p = subprocess.run(
            cmd, cwd=cwd, env=e, stdout=subprocess.PIPE, stderr=subprocess.STDOUT, timeout=timeout,
            shell=isinstance(cmd, str), input=stdin,
        )
        out = p.stdout.decode("utf-8", "replace")
        return p.returncode, out, time.time() - t0
    except subprocess.TimeoutExpired as ex:
        out = (ex.stdout or b"").decode("utf-8", "replace")
        return 124, out + f"\n[timeout after {timeout}s]", time.time() - t0


class Ctx:
    def __init__(self, prop, tier, seed):
        self.prop = prop
        self.tier = tier
        self.seed = seed
        self.t0 = time.time()
        base = "/dev/shm" if os.path.isdir("/dev/shm") else tempfile.gettempdir()
        self.work = tempfile.mkdtemp(prefix=f"slv_{prop}_", dir=base)
        self.replay_dir = os.path.join(VERIF, "replays", prop)
        os.makedirs(self.replay_dir, exist_ok=True)
        self.violations = []  # (replay_path, suffix)
        self.known = []  # strings
        self.cov = {}
        self.assumptions = []
        self.notes = []

    # ---------------------------------------------------------------- PROVE
    def coq_make(self, targets, timeout=1500):
        """Full .vo build of the given targets (relative to coq/), e.g. theories/Props/C26.vo"""
        rc, out, _ = run([os.path.join(COQ, "gen_project.sh")], cwd=COQ)
        if rc != 0:
            return False, out
        rc, out, dt = run(["make", "-j16"] + targets, cwd=COQ, timeout=timeout)
        return rc == 0, out

    def coq_audit(self, props_module, allow=()):
        """Returns (theorems, problems). Lists the Theorems of theories/Props/<module>.v, greps the
        whole development for forbidden declarations, and runs Print Assumptions on each theorem."""
        problems = []
        src = os.path.join(COQ, "theories", "Props", props_module + ".v")
        text = open(src).read()
        theorems = re.findall(r"^\s*Theorem\s+([A-Za-z0-9_']+)", text, re.M)
        # forbidden tokens anywhere in the development (comments stripped)
        for root, _, files in os.walk(os.path.join(COQ, "theories")):
            for f in files:
                if not f.endswith(".v"):
                    continue
                body = open(os.path.join(root, f)).read()
                body = strip_comments(body)
                body_nosec = remove_sections(body)
                for m in FORBIDDEN.finditer(body_nosec):
                    problems.append(f"forbidden token `{m.group(0)}` in {os.path.relpath(os.path.join(root, f), COQ)}")
        audit = os.path.join(self.work, "audit.v")
        with open(audit, "w") as fh:
            fh.write(f"From SL Require Import Props.{props_module}.\n")
            for t in theorems:
                fh.write(f'Goal True. idtac "@@THEOREM {t}". Abort.\nPrint Assumptions {t}.\n')
        rc, out, _ = run(["coqc", "-q", "-Q", os.path.join(COQ, "theories"), "SL", audit], cwd=self.work, timeout=600)
        assum = {}
        if rc != 0:
            problems.append("audit file did not compile: " + out[-800:])
        else:
            parts = out.split("@@THEOREM ")[1:]
            for part in parts:
                name, _, rest = part.partition("\n")
                rest = rest.strip()
                if rest.startswith("Closed under the global context"):
                    assum[name.strip()] = []
                else:
                    axs = re.findall(r"^([A-Za-z0-9_.']+)\s*:", rest, re.M)
                    assum[name.strip()] = axs
                    for a in axs:
                        if a not in allow:
                            problems.append(f"theorem {name.strip()} depends on axiom {a}")
            for t in theorems:
                if t not in assum:
                    problems.append(f"no Print Assumptions output for {t}")
        return theorems, assum, problems

    # ---------------------------------------------------------------- BUILD
    def harness_build(self, bins, timeout=2400):
        tmpl = open(os.path.join(HARNESS, "Cargo.toml.in")).read().replace("@REPO@", REPO)
        ct = os.path.join(HARNESS, "Cargo.toml")
        if not os.path.exists(ct) or open(ct).read() != tmpl:
            open(ct, "w").write(tmpl)
        lock_src = os.path.join(REPO, "Cargo.lock")
        lock_dst = os.path.join(HARNESS, "Cargo.lock")
        if not os.path.exists(lock_dst):
            shutil.copyfile(lock_src, lock_dst)
        cmd = ["cargo", "build", "--offline"]
        for b in bins:
            cmd += ["--bin", b]
        env = {"RUSTFLAGS": f"--cfg {GUARD}", "CARGO_NET_OFFLINE": "true", "CARGO_TARGET_DIR": TARGET}
        rc, out, dt = run(cmd, cwd=HARNESS, timeout=timeout, env=env)
        if rc != 0 and "Cargo.lock" in out and "needs to be updated" in out:
            shutil.copyfile(lock_src, lock_dst)
            rc, out, dt = run(cmd, cwd=HARNESS, timeout=timeout, env=env)
        return rc == 0, out

    def harness_run(self, bin_, args, timeout=1500, env=None):
        exe = os.path.join(TARGET, "debug", bin_)
        return run([exe] + [str(a) for a in args], cwd=self.work, timeout=timeout, env=env)

    # ---------------------------------------------------------------- TIE
    def coq_eval(self, case_dir, files, timeout=1800):
        """Evaluates the generated case files; returns (list of (index, code), errors)."""
        results, errors = [], []

        def one(f):
            rc, out, dt = run(
                ["coqc", "-q", "-noglob", "-Q", os.path.join(COQ, "theories"), "SL", f], cwd=case_dir, timeout=timeout
            )
            return f, rc, out

        with ThreadPoolExecutor(max_workers=16) as ex:
            outcomes = list(ex.map(one, files))
        # a shard that timed out (machine under load) is retried once, alone, with a long limit
        retried = []
        for f, rc, out in outcomes:
            if rc == 124:
                rc, out, _ = run(["coqc", "-q", "-noglob", "-Q", os.path.join(COQ, "theories"), "SL", f],
                                 cwd=case_dir, timeout=4 * timeout)
            retried.append((f, rc, out))
        if True:
            for f, rc, out in retried:
                if rc != 0:
                    errors.append(f"{f}: coqc failed: {out[-1500:]}")
                    continue
                m = re.search(r"=\s*(\[.*?\])\s*:\s*list", out, re.S)
                if not m:
                    errors.append(f"{f}: no report in coqc output: {out[-500:]}")
                    continue
                for a, b in re.findall(r"\(\s*(\d+)(?:%N)?\s*,\s*(\d+)(?:%N)?\s*\)", m.group(1)):
                    results.append((int(a), int(b)))
        return results, errors

    # ---------------------------------------------------------------- VERDICT
    def add_violation(self, name, payload, no_input=False):
        path = os.path.join(self.replay_dir, name)
        with open(path, "w") as fh:
            json.dump(payload, fh, indent=1, sort_keys=True, default=str)
        self.violations.append((path, " no-failing-input-found" if no_input else ""))

    def known_findings(self):
        out = {}
        p = os.path.join(VERIF, "known_findings.jsonl")
        if os.path.exists(p):
            for line in open(p):
                line = line.strip()
                if not line or line.startswith("#"):
                    continue
                r = json.loads(line)
                if r.get("kind") == "finding" and r.get("property") == self.prop:
                    out[int(r["class"])] = r
        return out

    def finish(self, level="proof"):
        ev = {
            "property_id": self.prop,
            "tier": self.tier,
            "seed": self.seed,
            "level": level,
            "coverage": self.cov,
            "assumptions": self.assumptions,
            "wall_s": round(time.time() - self.t0, 2),
            "violations": len(self.violations),
        }
        if self.notes:
            ev["coverage"]["notes"] = self.notes
        os.makedirs(os.path.join(VERIF, "evidence"), exist_ok=True)
        with open(os.path.join(VERIF, "evidence", self.prop + ".json"), "w") as fh:
            json.dump(ev, fh, indent=1, sort_keys=True, default=str)
        shutil.rmtree(self.work, ignore_errors=True)
        for k in self.known:
            print(f"KNOWN-FINDING: property={self.prop} {k}", flush=True)
        for path, suffix in self.violations:
            print(f"VIOLATION property={self.prop} replay={path}{suffix}", flush=True)
        log(f"{self.prop} tier={self.tier} seed={self.seed} violations={len(self.violations)} "
            f"known={len(self.known)} wall={ev['wall_s']}s")
        return 1 if self.violations else 0


def strip_comments(s):
    out, depth, i = [], 0, 0
    while i < len(s):
        if s.startswith("(*", i):
            depth += 1
            i += 2
        elif s.startswith("*)", i) and depth > 0:
            depth -= 1
            i += 2
        else:
            if depth == 0:
                out.append(s[i])
            i += 1
    return "".join(out)


def remove_sections(s):
    """Variable/Hypothesis are allowed inside a Section (they are discharged); blank out section bodies'
    Variable/Hypothesis/Context keywords only."""
    res, depth = [], 0
    for line in s.split("\n"):
        if re.match(r"\s*Section\s+\w+", line):
            depth += 1
        if depth > 0:
            line = re.sub(r"\b(Variable|Variables|Hypothesis|Hypotheses)\b", "SECTIONLOCAL", line)
        if re.match(r"\s*End\s+\w+", line) and depth > 0:
            depth -= 1
        res.append(line)
    return "\n".join(res)


# ------------------------------------------------------------------------------------------------
def standard_check(ctx, spec):
    """The common flow. spec keys:
      props_module   'C26'
      coq_targets    extra .vo targets (model file, so the tie still runs when a proof breaks)
      bin            harness binary name
      n              {'quick': int, 'thorough': int}
      rule           text for evidence
      trusted_base   extra entries
      assumptions    list of strings
      allow_axioms   tuple of allowed axiom names
      extra_args     callable(ctx) -> list of extra harness args
      level_claimed  ignored here
      model_vo       e.g. 'theories/C26/Model.vo' (needed by the tie)
      crash_is_violation  bool: a crashing engine (signal/abort) is itself a failing input
    """
    P = ctx.prop
    mod = spec["props_module"]
    props_vo = f"theories/Props/{mod}.vo"
    gen = spec.get("gen")
    gen_problems = []
    if gen:
        gen_problems = gen(ctx) or []
    # PROVE
    ok_proof, out = ctx.coq_make([props_vo])
    theorems, assum, problems = [], {}, []
    if ok_proof:
        theorems, assum, problems = ctx.coq_audit(mod, allow=spec.get("allow_axioms", ()))
    else:
        src = os.path.join(COQ, "theories", "Props", mod + ".v")
        theorems = re.findall(r"^\s*Theorem\s+([A-Za-z0-9_']+)", open(src).read(), re.M)
        problems = ["proof build failed: " + out[-1500:]]
        # the model must still build for the tie
        ok_model, out2 = ctx.coq_make([spec["model_vo"]])
        if not ok_model:
            problems.append("model build failed: " + out2[-1500:])
    problems = gen_problems + problems
    discharged = len(theorems) if (ok_proof and not problems) else 0
    ctx.cov.update({
        "obligations": len(theorems),
        "discharged": discharged,
        "theorems": theorems,
        "print_assumptions": assum,
        "checker_cmd": f"cd /verif/coq && ./gen_project.sh && make -j16 {props_vo} && coqc audit.v "
                       f"(Print Assumptions of each Theorem in theories/Props/{mod}.v) + grep for Admitted/Axiom/... "
                       f"+ coqc cases_*.v (vm_compute of {spec.get('check_fn', mod + '.Model.check_case')} on the engine's cases)",
        "trusted_base": KERNEL_TB + TIE_TB + spec.get("trusted_base", []),
    })
    ctx.assumptions += spec.get("assumptions", [])
    if ctx.tier == "thorough" and ok_proof:
        # independent re-check of the compiled statement file and everything it depends on
        rc, outc, dtc = run(["coqchk", "-silent", "-o", "-Q", os.path.join(COQ, "theories"), "SL", f"SL.Props.{mod}"],
                            cwd=COQ, timeout=3000)
        m = re.search(r"\* Axioms:\s*(.*?)\n\s*\n", outc, re.S)
        axioms = m.group(1).strip() if m else "?"
        ctx.cov["coqchk"] = {"exit": rc, "axioms": axioms, "wall_s": round(dtc, 1)}
        if rc != 0 or axioms != "<none>":
            extra = [a for a in re.findall(r"[A-Za-z0-9_.']+", axioms) if a not in spec.get("allow_axioms", ())]
            if rc != 0 or (axioms != "<none>" and extra):
                problems.append(f"coqchk: exit {rc}, axioms: {axioms}")
                ctx.cov["discharged"] = 0
    ctx.cov["prove_wall_s"] = round(time.time() - ctx.t0, 2)
    # BUILD
    t_b = time.time()
    okb, outb = ctx.harness_build([spec["bin"]])
    ctx.cov["build_wall_s"] = round(time.time() - t_b, 2)
    if not okb:
        ctx.add_violation("harness_build.json", {
            "what": "the correspondence engine no longer builds against /repo's working tree",
            "correspondence": spec["bin"], "cargo_output_tail": outb[-3000:]}, no_input=True)
        ctx.cov.update({"evaluations": 0, "distinct_nontrivial": 0, "rule": spec["rule"], "samples": []})
        return ctx.finish()
    # TIE
    n = spec["n"][ctx.tier]
    case_dir = os.path.join(ctx.work, "cases")
    args = ["--seed", ctx.seed, "--n", n, "--out", case_dir, "--tier", ctx.tier]
    corpus = os.path.join(VERIF, "corpus", P)
    if os.path.isdir(corpus):
        args += ["--corpus", corpus]
    if spec.get("extra_args"):
        args += spec["extra_args"](ctx)
    rc, outh, dth = ctx.harness_run(spec["bin"], args, timeout=spec.get("engine_timeout", 1500))
    meta = {}
    cj = os.path.join(case_dir, "cases.json")
    if rc != 0 or not os.path.exists(cj):
        progress = ""
        pp = os.path.join(case_dir, "progress.txt")
        if os.path.exists(pp):
            progress = open(pp).read()
        payload = {"what": "the engine crashed or aborted while driving the implementation",
                   "exit_code": rc, "progress": progress, "output_tail": outh[-4000:],
                   "cmd": [spec["bin"]] + [str(a) for a in args]}
        is_input = bool(spec.get("crash_is_violation")) and progress != ""
        ctx.add_violation("engine_crash.json", payload, no_input=not is_input)
        ctx.cov.update({"evaluations": 0, "distinct_nontrivial": 0, "rule": spec["rule"], "samples": []})
        return ctx.finish()
    meta = json.load(open(cj))
    cases = meta.get("cases", [])
    t_eval = time.time()
    results, errors = ctx.coq_eval(case_dir, meta["files"])
    ctx.cov["coq_eval_wall_s"] = round(time.time() - t_eval, 2)
    if errors:
        problems.append("case evaluation failed: " + "; ".join(errors)[:3000])
    known = ctx.known_findings()
    bad_spec, bad_corr, seen_known = [], [], {}
    for idx, code in sorted(results):
        if code == 1:
            bad_corr.append(idx)
        elif code >= 100 and (code - 100) in known:
            seen_known.setdefault(code - 100, []).append(idx)
        else:
            bad_spec.append((idx, code))
    for k, idxs in sorted(seen_known.items()):
        ctx.known.append(f"class={k} {known[k]['what']} ({len(idxs)} generated cases in this run, e.g. case {idxs[0]})")
    for j, (idx, code) in enumerate(bad_spec[:5]):
        ctx.add_violation(f"case_{idx}.json", {
            "what": "the implementation's observation violates the executable specification of the property",
            "code": code, "case_index": idx, "case": cases[idx] if idx < len(cases) else None,
            "seed": ctx.seed, "tier": ctx.tier,
            "replay": f"./check {P} --tier {ctx.tier} (VERIF_SEED={ctx.seed}) regenerates this case at index {idx}"})
    if not bad_spec and (bad_corr or problems):
        payload = {
            "what": "the property is no longer shown to hold: " + (
                "the implementation disagrees with the model on the cases listed (its observations still satisfy "
                "the executable specification, so no failing input was found)" if bad_corr else
                "a proof obligation or the audit no longer checks"),
            "broken": problems, "theorems": theorems,
            "correspondence": f"{mod}.Model.check_case via harness bin {spec['bin']}",
            "disagreeing_cases": [{"case_index": i, "case": cases[i] if i < len(cases) else None} for i in bad_corr[:5]],
            "n_disagreeing": len(bad_corr), "seed": ctx.seed, "tier": ctx.tier}
        ctx.add_violation("unproved.json", payload, no_input=True)
    elif bad_spec and problems:
        ctx.notes.append("also broken: " + "; ".join(problems)[:1500])
    nt = [c for c in cases if c.get("nt", True)]
    distinct = len({json.dumps(c, sort_keys=True) for c in nt})
    ctx.cov.update({
        "evaluations": len(cases),
        "distinct_nontrivial": distinct,
        "rule": spec["rule"],
        "samples": cases[:1] + ([nt[len(nt) // 2]] if nt else []) + cases[-1:],
        "traces_validated_against_impl": len(cases) - len(bad_corr) - len(bad_spec) - sum(len(v) for v in seen_known.values()),
        "input_distribution": meta.get("distribution", {}),
        "corr_mismatches": len(bad_corr), "spec_violations": len(bad_spec),
        "known_finding_cases": {str(k): len(v) for k, v in seen_known.items()},
        "engine_wall_s": round(dth, 2),
    })
    return ctx.finish()


def generic_replay(ctx, mod, path):
    """Re-runs the check with the seed and tier recorded in the replay file."""
    r = json.load(open(path))
    ctx.seed = int(r.get("seed", ctx.seed))
    ctx.tier = r.get("tier", ctx.tier)
    log(f"replaying {path}: seed={ctx.seed} tier={ctx.tier} case={r.get('case_index')}")
    return mod.run(ctx)
