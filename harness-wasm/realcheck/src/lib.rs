#![allow(dead_code)]
include!(concat!(env!("OUT_DIR"), "/wasm_mod.rs"));
