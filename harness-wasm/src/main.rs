//! C27 engine: runs the REAL `searchlite-wasm/src/wasm.rs` (included below through `#[path]`,
//! compiled for the host against the shim crates in `shims/`) under a harness-controlled
//! scheduler, closes the "page" at every cut point, reopens the durable IndexedDB content with
//! the real `Searchlite::init`, and writes (schedule, cuts) cases for `C27.Model.check_case`.
//!
//! Scheduler modes
//!   eager   : what a browser does — after every macrotask (JS call, IndexedDB event) the task
//!             queue is drained in FIFO order; the only choices are "next JS call" vs "next
//!             IndexedDB event" (creation order).  Enumerated exhaustively (DFS, capped).
//!   liberal : any interleaving of FIFO task polls, creation-ordered IndexedDB events and JS
//!             calls (everything the model calls conformant).  Random sampling.
//!   free    : any runnable task, any transaction (non-conformant platform).  Random sampling;
//!             violations here are the known class 1.
#![allow(dead_code)]
include!(concat!(env!("OUT_DIR"), "/wasm_mod.rs"));

use std::cell::RefCell;
use std::collections::{BTreeMap, BTreeSet, HashMap};
use std::rc::Rc;
use wasm::Searchlite;
use wasm_bindgen::{exec, sim};

const DB: &str = "slvdb";
const STORE: &str = "searchlite_files";

// ------------------------------------------------------------------------------------------
struct Rng(u64);
impl Rng {
  fn new(seed: u64) -> Rng {
    Rng(seed.wrapping_mul(0x9E3779B97F4A7C15) ^ 0xD1B54A32D192ED03)
  }
  fn next(&mut self) -> u64 {
    self.0 = self.0.wrapping_add(0x9E3779B97F4A7C15);
    let mut z = self.0;
    z = (z ^ (z >> 30)).wrapping_mul(0xBF58476D1CE4E5B9);
    z = (z ^ (z >> 27)).wrapping_mul(0x94D049BB133111EB);
    z ^ (z >> 31)
  }
  fn below(&mut self, n: usize) -> usize {
    (self.next() % (n as u64)) as usize
  }
}

#[derive(Clone, Copy, PartialEq, Eq, Debug)]
enum Mode {
  Eager,
  Liberal,
  Free,
}

#[derive(Clone, Debug)]
enum Api {
  Init,
  Add(u64),
  Commit,
}

#[derive(Clone, Debug, PartialEq, Eq, Hash, PartialOrd, Ord)]
enum PathId {
  Wal,
  Man,
  Seg(String, String), // uuid, extension
  Other(String),
}

fn classify(key: &str) -> PathId {
  let leaf = key.rsplit('/').next().unwrap_or(key);
  if leaf == "wal.log" {
    PathId::Wal
  } else if leaf == "MANIFEST.json" {
    PathId::Man
  } else if let Some(rest) = leaf.strip_prefix("seg_") {
    match rest.rsplit_once('.') {
      Some((id, ext)) => PathId::Seg(id.to_string(), ext.to_string()),
      None => PathId::Other(key.to_string()),
    }
  } else {
    PathId::Other(key.to_string())
  }
}

#[derive(Clone, Debug)]
enum Ev {
  Init,
  Add(u64),
  Commit,
  ApiPoll,
  Run(PathId),
  Req(usize),
  Done(usize),
}

#[derive(Clone)]
struct Cut {
  at: usize,
  started: Vec<Vec<u64>>,
  resolved: Vec<Vec<u64>>,
  snapshot: BTreeMap<String, Vec<u8>>,
  /// some transaction's request has succeeded but it is not durable yet
  gap: bool,
}

struct RunOut {
  evs: Vec<Ev>,
  cuts: Vec<Cut>,
  /// (chosen, number of options) at every decision point
  choices: Vec<(usize, usize)>,
  console: Vec<String>,
}

#[derive(Default)]
struct Shared {
  idx: Option<Rc<Searchlite>>,
  init_err: Option<String>,
  commit_done: Vec<Result<(), String>>,
}

fn schema_json() -> String {
  serde_json::to_string(&searchlite_core::Schema::default_text_body()).unwrap()
}

fn doc_value(d: u64) -> wasm_bindgen::JsValue {
  let v = serde_json::json!({"_id": format!("d{d:04}"), "body": format!("hello w{d}")});
  serde_wasm_bindgen::to_value(&v).unwrap()
}

fn durable_snapshot() -> BTreeMap<String, Vec<u8>> {
  sim::durable()
    .get(DB)
    .and_then(|d| d.stores.get(STORE))
    .map(|m| m.iter().map(|(k, v)| (k.clone(), v.to_vec())).collect())
    .unwrap_or_default()
}

enum Opt {
  Api,
  Run(usize),
  ApiPoll,
  Req(usize),
  Done(usize),
}

struct World {
  mode: Mode,
  script: Vec<Api>,
  next_api: usize,
  shared: Rc<RefCell<Shared>>,
  api_task: Option<usize>,
  api_is_commit: bool,
  task_path: HashMap<usize, PathId>,
  evs: Vec<Ev>,
  cuts: Vec<Cut>,
  added: Vec<u64>,
  started: Vec<Vec<u64>>,
  resolved: Vec<Vec<u64>>,
  commits_seen: usize,
}

impl World {
  fn cut(&mut self) {
    let gap = sim::rw_info().iter().any(|t| t.req_done);
    self.cuts.push(Cut {
      at: self.evs.len(),
      started: self.started.clone(),
      resolved: self.resolved.clone(),
      snapshot: durable_snapshot(),
      gap,
    });
  }

  /// Polls the init/commit future once; records EApiPoll unless `silent`.
  fn poll_api(&mut self, silent: bool) {
    let id = self.api_task.expect("api task");
    let finished = exec::poll(id);
    if !silent {
      self.evs.push(Ev::ApiPoll);
    }
    if finished {
      self.api_task = None;
      let mut resolved_something = false;
      {
        let sh = self.shared.borrow();
        if let Some(e) = &sh.init_err {
          panic!("init failed: {e}");
        }
        if self.api_is_commit {
          let r = sh.commit_done.last().expect("commit result");
          if let Err(e) = r {
            panic!("commit failed: {e}");
          }
          resolved_something = true;
        }
      }
      if resolved_something {
        let docs = self.started.last().unwrap().clone();
        self.resolved.push(docs);
      }
      if !silent {
        self.cut();
      }
    }
  }

  fn poll_persist(&mut self, id: usize) {
    let before: BTreeSet<usize> = sim::rw_info().iter().map(|t| t.id).collect();
    let _finished = exec::poll(id);
    let created: Vec<sim::TxInfo> = sim::rw_info().into_iter().filter(|t| !before.contains(&t.id)).collect();
    assert!(created.len() <= 1, "a persistence task opened {} transactions in one poll", created.len());
    if let Some(t) = created.first() {
      assert!(!t.delete, "unexpected delete transaction");
      assert_eq!(t.requests, 1, "one put per transaction expected");
      let p = classify(&t.key);
      if let Some(old) = self.task_path.get(&id) {
        assert_eq!(old, &p, "task changed its path");
      }
      self.task_path.insert(id, p);
    }
    let p = self.task_path.get(&id).cloned().expect("polled persistence task never opened a transaction");
    self.evs.push(Ev::Run(p));
  }

  fn api_enabled(&self) -> bool {
    match self.script.get(self.next_api) {
      None => false,
      Some(Api::Init) => true,
      Some(Api::Add(_)) => self.shared.borrow().idx.is_some(),
      Some(Api::Commit) => self.shared.borrow().idx.is_some() && self.api_task.is_none(),
    }
  }

  fn do_api(&mut self) {
    let a = self.script[self.next_api].clone();
    self.next_api += 1;
    match a {
      Api::Init => {
        let sh = self.shared.clone();
        let id = exec::spawn(Box::pin(async move {
          match Searchlite::init(DB.to_string(), schema_json(), None).await {
            Ok(s) => sh.borrow_mut().idx = Some(Rc::new(s)),
            Err(e) => sh.borrow_mut().init_err = Some(format!("{e:?}")),
          }
        }));
        self.api_task = Some(id);
        self.api_is_commit = false;
        // loading phase: database open / upgrade and the read-only snapshot transaction
        loop {
          if self.api_task.is_some() && exec::runnable().contains(&id) {
            self.poll_api(true);
          } else if sim::auto_pending() {
            sim::run_auto_one();
          } else {
            break;
          }
        }
        self.evs.push(Ev::Init);
        assert!(self.api_task.is_some(), "init finished without persisting a manifest");
      }
      Api::Add(d) => {
        let idx = self.shared.borrow().idx.clone().expect("index");
        idx.add_document(doc_value(d)).unwrap_or_else(|e| panic!("add_document: {e:?}"));
        self.added.push(d);
        self.evs.push(Ev::Add(d));
      }
      Api::Commit => {
        let idx = self.shared.borrow().idx.clone().expect("index");
        let sh = self.shared.clone();
        let mut docs = self.added.clone();
        docs.sort();
        self.started.push(docs);
        let id = exec::spawn(Box::pin(async move {
          let r = idx.commit().await.map_err(|e| format!("{e:?}"));
          sh.borrow_mut().commit_done.push(r);
        }));
        self.api_task = Some(id);
        self.api_is_commit = true;
        // the synchronous part (core commit) up to the first pending await
        let finished = exec::poll(id);
        self.evs.push(Ev::Commit);
        if finished {
          // nothing to wait for: the model needs one poll to notice
          self.api_task = None;
          if let Err(e) = self.shared.borrow().commit_done.last().unwrap() {
            panic!("commit failed: {e}");
          }
          self.evs.push(Ev::ApiPoll);
          let docs = self.started.last().unwrap().clone();
          self.resolved.push(docs);
          self.cut();
        }
      }
    }
  }

  fn options(&self) -> Vec<Opt> {
    let mut o = Vec::new();
    let rq = exec::runnable();
    let txs = sim::rw_info();
    match self.mode {
      Mode::Eager => {
        if let Some(&h) = rq.first() {
          o.push(if Some(h) == self.api_task { Opt::ApiPoll } else { Opt::Run(h) });
          return o;
        }
        if self.api_enabled() {
          o.push(Opt::Api);
        }
        if let Some(t) = txs.first() {
          o.push(if t.req_done { Opt::Done(0) } else { Opt::Req(0) });
        }
      }
      Mode::Liberal => {
        if self.api_enabled() {
          o.push(Opt::Api);
        }
        if let Some(&h) = rq.iter().find(|t| Some(**t) != self.api_task) {
          o.push(Opt::Run(h));
        }
        if self.api_task.map(|a| rq.contains(&a)).unwrap_or(false) {
          o.push(Opt::ApiPoll);
        }
        if let Some(t) = txs.first() {
          o.push(if t.req_done { Opt::Done(0) } else { Opt::Req(0) });
        }
      }
      Mode::Free => {
        if self.api_enabled() {
          o.push(Opt::Api);
        }
        for &t in rq.iter() {
          if Some(t) == self.api_task {
            o.push(Opt::ApiPoll);
          } else {
            o.push(Opt::Run(t));
          }
        }
        for (i, t) in txs.iter().enumerate() {
          o.push(if t.req_done { Opt::Done(i) } else { Opt::Req(i) });
        }
      }
    }
    o
  }

  fn apply(&mut self, o: Opt) {
    match o {
      Opt::Api => self.do_api(),
      Opt::Run(t) => self.poll_persist(t),
      Opt::ApiPoll => self.poll_api(false),
      Opt::Req(i) => {
        sim::rw_req(i);
        self.evs.push(Ev::Req(i));
      }
      Opt::Done(i) => {
        sim::rw_done(i);
        self.evs.push(Ev::Done(i));
        self.cut();
      }
    }
  }
}

/// One run of the script in a fresh world (own thread: fresh thread-locals, including the
/// DB_CACHE of wasm.rs).  `pick(n)` chooses among n >= 2 options.
fn run_world(script: Vec<Api>, mode: Mode, prefix: Vec<usize>, rng_seed: Option<u64>) -> RunOut {
  std::thread::Builder::new()
    .stack_size(4 << 20)
    .spawn(move || {
      sim::reset();
      let mut w = World {
        mode,
        script,
        next_api: 0,
        shared: Rc::new(RefCell::new(Shared::default())),
        api_task: None,
        api_is_commit: false,
        task_path: HashMap::new(),
        evs: Vec::new(),
        cuts: Vec::new(),
        added: Vec::new(),
        started: Vec::new(),
        resolved: Vec::new(),
        commits_seen: 0,
      };
      let mut rng = rng_seed.map(Rng::new);
      let mut choices: Vec<(usize, usize)> = Vec::new();
      let mut steps = 0usize;
      loop {
        let mut opts = w.options();
        if opts.is_empty() {
          break;
        }
        let k = if opts.len() == 1 {
          0
        } else {
          let n = opts.len();
          let c = if choices.len() < prefix.len() {
            prefix[choices.len()].min(n - 1)
          } else if let Some(r) = rng.as_mut() {
            r.below(n)
          } else {
            0
          };
          choices.push((c, n));
          c
        };
        let o = opts.swap_remove(k);
        w.apply(o);
        steps += 1;
        assert!(steps < 100_000, "schedule does not terminate");
      }
      assert!(w.next_api == w.script.len(), "script not finished: {} of {}", w.next_api, w.script.len());
      assert!(w.api_task.is_none(), "api future still pending at quiescence");
      RunOut { evs: w.evs, cuts: w.cuts, choices, console: sim::console_take() }
    })
    .unwrap()
    .join()
    .unwrap_or_else(|_| panic!("run_world panicked"))
}

/// Closes the page (only `snapshot` survives), reopens with the real `Searchlite::init`, searches.
/// Returns (init ok, documents served or None, detail).
fn reload(snapshot: BTreeMap<String, Vec<u8>>) -> (bool, Option<Vec<u64>>, String) {
  std::thread::Builder::new()
    .stack_size(4 << 20)
    .spawn(move || {
      let mut dbs = BTreeMap::new();
      let mut d = sim::DbDurable { version: 1, stores: BTreeMap::new() };
      d.stores.insert(STORE.to_string(), snapshot.into_iter().map(|(k, v)| (k, Rc::new(v))).collect());
      dbs.insert(DB.to_string(), d);
      sim::install(dbs);
      let sh = Rc::new(RefCell::new(Shared::default()));
      let sh2 = sh.clone();
      exec::spawn(Box::pin(async move {
        match Searchlite::init(DB.to_string(), schema_json(), None).await {
          Ok(s) => sh2.borrow_mut().idx = Some(Rc::new(s)),
          Err(e) => sh2.borrow_mut().init_err = Some(format!("{e:?}")),
        }
      }));
      let mut steps = 0;
      loop {
        steps += 1;
        assert!(steps < 100_000);
        if let Some(&h) = exec::runnable().first() {
          exec::poll(h);
        } else if sim::auto_pending() {
          sim::run_auto_one();
        } else if let Some(t) = sim::rw_info().first() {
          if t.req_done {
            sim::rw_done(0)
          } else {
            sim::rw_req(0)
          }
        } else {
          break;
        }
      }
      let sh = sh.borrow();
      let idx = match &sh.idx {
        Some(i) => i.clone(),
        None => return (false, None, format!("init: {}", sh.init_err.clone().unwrap_or("pending".into()))),
      };
      match idx.search("hello".to_string(), 10_000) {
        Err(e) => (true, None, format!("search: {e:?}")),
        Ok(v) => {
          let j: serde_json::Value = serde_wasm_bindgen::from_value(v).unwrap();
          let mut ids: Vec<u64> = j["hits"]
            .as_array()
            .map(|a| {
              a.iter()
                .filter_map(|h| h["doc_id"].as_str().and_then(|s| s.trim_start_matches('d').parse::<u64>().ok()))
                .collect()
            })
            .unwrap_or_default();
          ids.sort();
          (true, Some(ids), String::new())
        }
      }
    })
    .unwrap()
    .join()
    .unwrap_or_else(|_| (false, None, "reload panicked".into()))
}

// ------------------------------------------------------------------------------------------
// Gallina printing
struct Namer {
  ext_order: Vec<String>,
}

impl Namer {
  fn path(&self, segs: &mut Vec<String>, p: &PathId) -> String {
    match p {
      PathId::Wal => "PWal".into(),
      PathId::Man => "PMan".into(),
      PathId::Seg(id, ext) => {
        let s = match segs.iter().position(|x| x == id) {
          Some(i) => i,
          None => {
            segs.push(id.clone());
            segs.len() - 1
          }
        };
        let k = self.ext_order.iter().position(|x| x == ext).map(|k| k as i64).unwrap_or(99);
        format!("(PSeg {s} {k})")
      }
      PathId::Other(_) => "(PSeg 999 999)".into(),
    }
  }
}

fn nlist(xs: &[u64]) -> String {
  format!("[{}]", xs.iter().map(|x| x.to_string()).collect::<Vec<_>>().join("; "))
}
fn nlists(xs: &[Vec<u64>]) -> String {
  format!("[{}]", xs.iter().map(|x| nlist(x)).collect::<Vec<_>>().join("; "))
}
fn opt_nlist(x: &Option<Vec<u64>>) -> String {
  match x {
    Some(v) => format!("(Some {})", nlist(v)),
    None => "None".into(),
  }
}

struct Rendered {
  coq: String,
  json: serde_json::Value,
  nt: bool,
  violates: bool,
  gap_cuts: usize,
  cuts: usize,
  broken: usize,
}

fn render(namer: &Namer, mode: Mode, script_name: &str, out: &RunOut) -> Rendered {
  // segment numbering: order in which segment files first get a transaction is the commit order;
  // assign from the events in order
  let mut segs: Vec<String> = Vec::new();
  let mut evs = Vec::new();
  for e in &out.evs {
    evs.push(match e {
      Ev::Init => "EInit".to_string(),
      Ev::Add(d) => format!("EAdd {d}"),
      Ev::Commit => "ECommit".into(),
      Ev::ApiPoll => "EApiPoll".into(),
      Ev::Run(p) => format!("ERun {}", namer.path(&mut segs, p)),
      Ev::Req(i) => format!("EReq {i}%nat"),
      Ev::Done(i) => format!("EDone {i}%nat"),
    });
  }
  let mut cuts = Vec::new();
  let mut jcuts = Vec::new();
  let mut violates = false;
  let mut gap_cuts = 0;
  let mut broken = 0;
  let mut last: Option<(BTreeMap<String, Vec<u8>>, (bool, Option<Vec<u64>>, String))> = None;
  for c in &out.cuts {
    let obs = match &last {
      Some((s, o)) if *s == c.snapshot => o.clone(),
      _ => {
        let o = reload(c.snapshot.clone());
        last = Some((c.snapshot.clone(), o.clone()));
        o
      }
    };
    let keys: Vec<String> = c.snapshot.keys().map(|k| namer.path(&mut segs, &classify(k))).collect();
    let man: Option<Vec<u64>> = c.snapshot.iter().find(|(k, _)| classify(k) == PathId::Man).map(|(_, v)| {
      let j: serde_json::Value = serde_json::from_slice(v).unwrap_or(serde_json::Value::Null);
      j["segments"]
        .as_array()
        .map(|a| {
          a.iter()
            .map(|s| {
              let id = s["id"].as_str().unwrap_or("?").to_string();
              segs.iter().position(|x| *x == id).map(|i| i as u64).unwrap_or(999)
            })
            .collect()
        })
        .unwrap_or_else(|| vec![998])
    });
    // the property, evaluated here only for statistics (Coq decides)
    let ok = match &obs.1 {
      None => false,
      Some(ids) => {
        (ids.is_empty() || c.started.iter().any(|s| s == ids))
          && c.resolved.iter().all(|r| r.iter().all(|d| ids.contains(d)))
      }
    };
    if !ok {
      violates = true;
    }
    if obs.1.is_none() {
      broken += 1;
    }
    if c.gap {
      gap_cuts += 1;
    }
    cuts.push(format!(
      "{{| u_at := {}%nat; u_started := {}; u_resolved := {}; u_keys := [{}]; u_man := {}; u_obs := {} |}}",
      c.at,
      nlists(&c.started),
      nlists(&c.resolved),
      keys.join("; "),
      opt_nlist(&man),
      opt_nlist(&obs.1)
    ));
    jcuts.push(serde_json::json!({
      "at": c.at, "started": c.started, "resolved": c.resolved, "keys": keys, "manifest_segments": man,
      "init_ok": obs.0, "served": obs.1, "detail": obs.2, "gap": c.gap, "spec_ok": ok,
    }));
  }
  let coq = format!("{{| c_evs := [{}];\n   c_cuts := [{}] |}}", evs.join("; "), cuts.join(";\n     "));
  // non-trivial: the page is closed at least once while a commit is in flight (started, promise
  // not resolved) and the schedule contains a commit that wrote a segment
  let inflight = out.cuts.iter().any(|c| c.started.len() > c.resolved.len());
  let commits = if inflight { out.evs.iter().filter(|e| matches!(e, Ev::Commit)).count() } else { 0 };
  Rendered {
    coq,
    json: serde_json::json!({
      "mode": format!("{mode:?}"), "script": script_name, "events": evs, "cuts": jcuts,
      "console": out.console, "nt": commits >= 1 && out.cuts.len() >= 8,
    }),
    nt: commits >= 1 && out.cuts.len() >= 8,
    violates,
    gap_cuts,
    cuts: out.cuts.len(),
    broken,
  }
}

fn scripts(thorough: bool) -> Vec<(String, Vec<Api>)> {
  use Api::*;
  let mut v = vec![
    ("init".to_string(), vec![Init]),
    ("1x1".to_string(), vec![Init, Add(1), Commit]),
    ("empty-commit".to_string(), vec![Init, Commit, Add(1), Commit, Commit]),
    ("1x2".to_string(), vec![Init, Add(1), Add(2), Commit]),
    ("2x1".to_string(), vec![Init, Add(1), Commit, Add(2), Commit]),
    ("2x2".to_string(), vec![Init, Add(1), Add(2), Commit, Add(3), Add(4), Commit]),
    ("3x1".to_string(), vec![Init, Add(1), Commit, Add(2), Commit, Add(3), Commit]),
  ];
  if thorough {
    v.push(("3x2".to_string(), vec![Init, Add(1), Add(2), Commit, Add(3), Commit, Add(4), Add(5), Commit]));
  }
  v
}

fn main() {
  let argv: Vec<String> = std::env::args().skip(1).collect();
  let mut seed = 1u64;
  let mut n = 200usize;
  let mut out_dir = std::path::PathBuf::from(".");
  let mut tier = "quick".to_string();
  let mut i = 0;
  while i + 1 < argv.len() {
    match argv[i].as_str() {
      "--seed" => seed = argv[i + 1].parse().unwrap(),
      "--n" => n = argv[i + 1].parse().unwrap(),
      "--out" => out_dir = argv[i + 1].clone().into(),
      "--tier" => tier = argv[i + 1].clone(),
      _ => {}
    }
    i += 2;
  }
  std::fs::create_dir_all(&out_dir).unwrap();
  std::panic::set_hook(Box::new(|info| {
    eprintln!("PANIC: {info}");
  }));
  let thorough = tier == "thorough";
  let progress = out_dir.join("progress.txt");

  // calibration: FIFO order in which the core writes the files of a segment
  let cal = run_world(vec![Api::Init, Api::Add(1), Api::Commit], Mode::Eager, vec![], None);
  let mut ext_order: Vec<String> = Vec::new();
  for e in &cal.evs {
    if let Ev::Run(PathId::Seg(_, ext)) = e {
      if !ext_order.contains(ext) {
        ext_order.push(ext.clone());
      }
    }
  }
  assert_eq!(ext_order.len(), 5, "expected 5 segment files, saw {ext_order:?}");
  let namer = Namer { ext_order: ext_order.clone() };

  let mut rng = Rng::new(seed);
  let mut rendered: Vec<Rendered> = Vec::new();
  let mut seen: BTreeSet<String> = BTreeSet::new();
  let mut dist: BTreeMap<String, serde_json::Value> = BTreeMap::new();
  // n = budget of schedules per mode (eager DFS cap is per script)
  let eager_cap = n;
  for (name, script) in scripts(thorough) {
    // exhaustive DFS over the eager (browser) schedules
    let mut prefix: Vec<usize> = Vec::new();
    let mut count = 0usize;
    let mut complete = false;
    loop {
      std::fs::write(&progress, format!("script={name} mode=eager prefix={prefix:?}")).ok();
      let out = run_world(script.clone(), Mode::Eager, prefix.clone(), None);
      count += 1;
      let r = render(&namer, Mode::Eager, &name, &out);
      if seen.insert(r.coq.clone()) {
        rendered.push(r);
      }
      // next prefix in DFS order
      let mut ch = out.choices.clone();
      loop {
        match ch.pop() {
          None => {
            complete = true;
            break;
          }
          Some((c, k)) => {
            if c + 1 < k {
              ch.push((c + 1, k));
              break;
            }
          }
        }
      }
      if complete || count >= eager_cap / 2 {
        break;
      }
      prefix = ch.iter().map(|(c, _)| *c).collect();
    }
    // not exhausted within half the budget: the other half is sampled uniformly at each choice
    let mut sampled = 0usize;
    if !complete {
      while count + sampled < eager_cap {
        let s = rng.next();
        std::fs::write(&progress, format!("script={name} mode=eager rng={s}")).ok();
        let out = run_world(script.clone(), Mode::Eager, vec![], Some(s));
        sampled += 1;
        let r = render(&namer, Mode::Eager, &name, &out);
        if seen.insert(r.coq.clone()) {
          rendered.push(r);
        }
      }
    }
    dist.insert(
      format!("eager:{name}"),
      serde_json::json!({"dfs_schedules": count, "exhaustive": complete, "sampled_schedules": sampled}),
    );
    // random sampling of liberal and free schedules
    let per = if name == "init" { 2 } else { (n / 8).max(4) };
    for mode in [Mode::Liberal, Mode::Free] {
      let mut viol = 0;
      for _ in 0..per {
        let s = rng.next();
        std::fs::write(&progress, format!("script={name} mode={mode:?} rng={s}")).ok();
        let out = run_world(script.clone(), mode, vec![], Some(s));
        let r = render(&namer, mode, &name, &out);
        if r.violates {
          viol += 1;
        }
        if seen.insert(r.coq.clone()) {
          rendered.push(r);
        }
      }
      dist.insert(format!("{mode:?}:{name}"), serde_json::json!({"schedules": per, "violating": viol}));
    }
  }
  std::fs::write(&progress, "").ok();

  let total_cuts: usize = rendered.iter().map(|r| r.cuts).sum();
  let gap_cuts: usize = rendered.iter().map(|r| r.gap_cuts).sum();
  let broken: usize = rendered.iter().map(|r| r.broken).sum();
  dist.insert(
    "totals".into(),
    serde_json::json!({
      "cases": rendered.len(), "cuts": total_cuts, "gap_cuts": gap_cuts, "cuts_that_do_not_open": broken,
      "violating_cases_by_engine_count": rendered.iter().filter(|r| r.violates).count(),
      "segment_file_order": ext_order,
    }),
  );

  // case files
  let shard = 16usize;
  let mut files = Vec::new();
  for (k, chunk) in rendered.chunks(shard).enumerate() {
    let name = format!("cases_{k}.v");
    let mut s = String::new();
    s.push_str("From Coq Require Import List NArith Bool.\nImport ListNotations.\n");
    s.push_str("From SL Require Import Base.Tie C27.Model.\nOpen Scope N_scope.\n");
    s.push_str("Definition cases : list case27 := [\n");
    s.push_str(&chunk.iter().map(|r| r.coq.clone()).collect::<Vec<_>>().join(";\n"));
    s.push_str("\n].\n");
    s.push_str(&format!("Eval vm_compute in (report_from check_case {} cases).\n", k * shard));
    std::fs::write(out_dir.join(&name), s).unwrap();
    files.push(name);
  }
  let cases: Vec<serde_json::Value> = rendered.iter().map(|r| r.json.clone()).collect();
  let meta = serde_json::json!({"files": files, "cases": cases, "distribution": dist});
  std::fs::write(out_dir.join("cases.json"), serde_json::to_vec(&meta).unwrap()).unwrap();
  println!("c27: {} cases, {} cuts, {} gap cuts, {} broken reloads", rendered.len(), total_cuts, gap_cuts, broken);
}
