// Points `mod wasm` at the real source file of the tree under verification.
use std::path::PathBuf;
fn main() {
  let repo = std::env::var("SLV_REPO").unwrap_or_else(|_| "/repo".to_string());
  let src = PathBuf::from(&repo).join("searchlite-wasm/src/wasm.rs");
  assert!(src.exists(), "{} not found", src.display());
  let out = PathBuf::from(std::env::var("OUT_DIR").unwrap()).join("wasm_mod.rs");
  std::fs::write(&out, format!("#[path = {:?}]\nmod wasm;\n", src.to_string_lossy())).unwrap();
  println!("cargo:rerun-if-env-changed=SLV_REPO");
  println!("cargo:rerun-if-changed={}", src.display());
  println!("cargo:rerun-if-changed=build.rs");
}
