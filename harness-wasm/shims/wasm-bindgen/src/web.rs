//! web-sys surface used by wasm.rs (signatures as in web-sys 0.3).
use crate::js::Function;
use crate::sim::{self, ReqOp};
use crate::{js_type, JsValue, Kind};
use std::rc::Rc;

js_type!(EventTarget, |v| matches!(
  v.kind(),
  Some(Kind::Request(_)) | Some(Kind::Transaction(_)) | Some(Kind::Database(_))
));
js_type!(Event, |v| matches!(v.kind(), Some(Kind::Event { .. })));
js_type!(DomException, |v| matches!(v.kind(), Some(Kind::DomException(_))));
js_type!(IdbFactory, |v| matches!(v.kind(), Some(Kind::Factory)));
js_type!(IdbDatabase, |v| matches!(v.kind(), Some(Kind::Database(_))));
js_type!(IdbRequest, |v| matches!(v.kind(), Some(Kind::Request(_))));
js_type!(IdbOpenDbRequest, |v| matches!(v.kind(), Some(Kind::Request(r)) if matches!(r.op, ReqOp::Open { .. })));
js_type!(IdbTransaction, |v| matches!(v.kind(), Some(Kind::Transaction(_))));
js_type!(IdbObjectStore, |v| matches!(v.kind(), Some(Kind::ObjectStore(_))));

#[derive(Clone, Copy, Debug, PartialEq, Eq)]
pub enum IdbTransactionMode {
  Readonly,
  Readwrite,
  Readwriteflush,
  Cleanup,
  Versionchange,
}

impl Event {
  pub fn target(&self) -> Option<EventTarget> {
    match self.obj.kind() {
      Some(Kind::Event { target }) => Some(EventTarget { obj: target.clone() }),
      _ => None,
    }
  }
}

impl DomException {
  pub fn message(&self) -> String {
    match self.obj.kind() {
      Some(Kind::DomException(m)) => m.clone(),
      _ => String::new(),
    }
  }
}

impl IdbFactory {
  pub fn open_with_u32(&self, name: &str, version: u32) -> Result<IdbOpenDbRequest, JsValue> {
    sim::factory_open(name, version).map(|obj| IdbOpenDbRequest { obj })
  }
}

fn req(v: &JsValue) -> &sim::ReqInner {
  match v.kind() {
    Some(Kind::Request(r)) => r,
    _ => panic!("web shim: not a request"),
  }
}

fn handler(value: Option<&Function>) -> Option<JsValue> {
  value.map(|f| {
    let v: &JsValue = f.as_ref();
    v.clone()
  })
}

impl IdbRequest {
  pub fn result(&self) -> Result<JsValue, JsValue> {
    let r = req(&self.obj);
    if !r.done.get() && r.result.borrow().is_none() {
      return Err(JsValue::from_kind(Kind::DomException("InvalidStateError: request pending".into())));
    }
    Ok(r.result.borrow().clone().unwrap_or(JsValue::undefined()))
  }
  pub fn error(&self) -> Result<Option<DomException>, JsValue> {
    let r = req(&self.obj);
    Ok(r.error.borrow().clone().map(|m| DomException { obj: JsValue::from_kind(Kind::DomException(m)) }))
  }
  pub fn set_onsuccess(&self, value: Option<&Function>) {
    *req(&self.obj).onsuccess.borrow_mut() = handler(value);
  }
  pub fn set_onerror(&self, value: Option<&Function>) {
    *req(&self.obj).onerror.borrow_mut() = handler(value);
  }
}

impl IdbOpenDbRequest {
  pub fn result(&self) -> Result<JsValue, JsValue> {
    IdbRequest { obj: self.obj.clone() }.result()
  }
  pub fn error(&self) -> Result<Option<DomException>, JsValue> {
    IdbRequest { obj: self.obj.clone() }.error()
  }
  pub fn set_onsuccess(&self, value: Option<&Function>) {
    *req(&self.obj).onsuccess.borrow_mut() = handler(value);
  }
  pub fn set_onerror(&self, value: Option<&Function>) {
    *req(&self.obj).onerror.borrow_mut() = handler(value);
  }
  pub fn set_onupgradeneeded(&self, value: Option<&Function>) {
    *req(&self.obj).onupgradeneeded.borrow_mut() = handler(value);
  }
  pub fn set_onblocked(&self, _value: Option<&Function>) {}
}

impl From<IdbOpenDbRequest> for IdbRequest {
  fn from(r: IdbOpenDbRequest) -> IdbRequest {
    IdbRequest { obj: r.obj }
  }
}
impl From<IdbRequest> for EventTarget {
  fn from(r: IdbRequest) -> EventTarget {
    EventTarget { obj: r.obj }
  }
}

impl IdbDatabase {
  fn db_name(&self) -> String {
    match self.obj.kind() {
      Some(Kind::Database(h)) => h.name.clone(),
      _ => panic!("web shim: not a database"),
    }
  }
  pub fn name(&self) -> String {
    self.db_name()
  }
  pub fn create_object_store(&self, name: &str) -> Result<IdbObjectStore, JsValue> {
    sim::db_create_object_store(&self.db_name(), name).map(|obj| IdbObjectStore { obj })
  }
  pub fn transaction_with_str_and_mode(
    &self,
    store_name: &str,
    mode: IdbTransactionMode,
  ) -> Result<IdbTransaction, JsValue> {
    let rw = match mode {
      IdbTransactionMode::Readonly => false,
      IdbTransactionMode::Readwrite | IdbTransactionMode::Readwriteflush => true,
      _ => return Err(JsValue::from_str("TypeError: invalid transaction mode")),
    };
    sim::db_transaction(&self.db_name(), store_name, rw).map(|obj| IdbTransaction { obj })
  }
  pub fn transaction_with_str(&self, store_name: &str) -> Result<IdbTransaction, JsValue> {
    self.transaction_with_str_and_mode(store_name, IdbTransactionMode::Readonly)
  }
  pub fn close(&self) {}
}

fn txi(v: &JsValue) -> &Rc<sim::TxInner> {
  match v.kind() {
    Some(Kind::Transaction(t)) | Some(Kind::ObjectStore(t)) => t,
    _ => panic!("web shim: not a transaction / object store"),
  }
}

impl IdbTransaction {
  pub fn object_store(&self, name: &str) -> Result<IdbObjectStore, JsValue> {
    let t = txi(&self.obj);
    if t.store != name {
      return Err(JsValue::from_kind(Kind::DomException("NotFoundError: store not in scope".into())));
    }
    Ok(IdbObjectStore { obj: JsValue::from_kind(Kind::ObjectStore(t.clone())) })
  }
  pub fn set_oncomplete(&self, value: Option<&Function>) {
    *txi(&self.obj).oncomplete.borrow_mut() = handler(value);
  }
  pub fn set_onerror(&self, value: Option<&Function>) {
    *txi(&self.obj).onerror.borrow_mut() = handler(value);
  }
  pub fn set_onabort(&self, value: Option<&Function>) {
    *txi(&self.obj).onabort.borrow_mut() = handler(value);
  }
  pub fn error(&self) -> Option<DomException> {
    None
  }
}

fn bytes_of(value: &JsValue) -> Result<Rc<Vec<u8>>, JsValue> {
  match value.kind() {
    Some(Kind::Uint8Array(b)) => Ok(b.clone()),
    _ => Err(JsValue::from_kind(Kind::DomException(
      "DataCloneError: the shim stores Uint8Array values only".into(),
    ))),
  }
}

fn key_of(key: &JsValue) -> Result<String, JsValue> {
  key
    .as_string()
    .ok_or_else(|| JsValue::from_kind(Kind::DomException("DataError: the shim supports string keys only".into())))
}

impl IdbObjectStore {
  pub fn get_all_keys(&self) -> Result<IdbRequest, JsValue> {
    sim::tx_request(txi(&self.obj), ReqOp::GetAllKeys).map(|obj| IdbRequest { obj })
  }
  pub fn get_all(&self) -> Result<IdbRequest, JsValue> {
    sim::tx_request(txi(&self.obj), ReqOp::GetAll).map(|obj| IdbRequest { obj })
  }
  pub fn put_with_key(&self, value: &JsValue, key: &JsValue) -> Result<IdbRequest, JsValue> {
    let op = ReqOp::Put { key: key_of(key)?, value: bytes_of(value)? };
    sim::tx_request(txi(&self.obj), op).map(|obj| IdbRequest { obj })
  }
  pub fn delete(&self, key: &JsValue) -> Result<IdbRequest, JsValue> {
    sim::tx_request(txi(&self.obj), ReqOp::Delete { key: key_of(key)? }).map(|obj| IdbRequest { obj })
  }
}

pub mod console {
  use crate::JsValue;
  pub fn error_1(data_1: &JsValue) {
    crate::sim::console_log(format!("error: {:?}", data_1));
  }
  pub fn warn_1(data_1: &JsValue) {
    crate::sim::console_log(format!("warn: {:?}", data_1));
  }
  pub fn log_1(data_1: &JsValue) {
    crate::sim::console_log(format!("log: {:?}", data_1));
  }
}
