//! Simulated IndexedDB backend.
//!
//! Durable state: per database a version and object stores (key -> bytes).  A read-write
//! transaction buffers its puts/deletes; they reach the durable store only when the harness
//! completes the transaction (`rw_done`).  Request success (`rw_req`) and completion are separate
//! events, as in IndexedDB (success fires first; the transaction commits once it has no pending
//! request).  Open requests and read-only requests are "automatic" events (`run_auto_one`) the
//! harness drains eagerly: they do not change the durable state.
use crate::{JsValue, Kind};
use std::cell::{Cell, RefCell};
use std::collections::{BTreeMap, VecDeque};
use std::rc::Rc;

pub struct DbHandle {
  pub name: String,
}

pub enum ReqOp {
  Open { name: String, version: u32 },
  GetAllKeys,
  GetAll,
  Put { key: String, value: Rc<Vec<u8>> },
  Delete { key: String },
}

pub struct ReqInner {
  pub op: ReqOp,
  pub result: RefCell<Option<JsValue>>,
  pub error: RefCell<Option<String>>,
  pub done: Cell<bool>,
  pub onsuccess: RefCell<Option<JsValue>>,
  pub onerror: RefCell<Option<JsValue>>,
  pub onupgradeneeded: RefCell<Option<JsValue>>,
}

pub struct TxInner {
  pub id: usize,
  pub db: String,
  pub store: String,
  pub readwrite: bool,
  pub reqs: RefCell<Vec<JsValue>>,
  pub executed: Cell<usize>,
  pub finished: Cell<bool>,
  pub oncomplete: RefCell<Option<JsValue>>,
  pub onerror: RefCell<Option<JsValue>>,
  pub onabort: RefCell<Option<JsValue>>,
  pub writes: RefCell<Vec<(String, Option<Rc<Vec<u8>>>)>>,
}

#[derive(Default, Clone)]
pub struct DbDurable {
  pub version: u32,
  pub stores: BTreeMap<String, BTreeMap<String, Rc<Vec<u8>>>>,
}

enum Auto {
  Open(JsValue),
  OpenSuccess(JsValue),
  Read(JsValue, JsValue),
}

#[derive(Default)]
struct Sim {
  dbs: BTreeMap<String, DbDurable>,
  rw: Vec<JsValue>,
  auto: VecDeque<Auto>,
  console: Vec<String>,
  upgrading: Option<String>,
  next_tx: usize,
}

thread_local! {
  static SIM: RefCell<Sim> = RefCell::new(Sim::default());
}

fn dom(name: &str, msg: &str) -> JsValue {
  JsValue::from_kind(Kind::DomException(format!("{name}: {msg}")))
}

pub fn console_log(msg: String) {
  SIM.with(|s| s.borrow_mut().console.push(msg));
}

pub fn console_take() -> Vec<String> {
  SIM.with(|s| std::mem::take(&mut s.borrow_mut().console))
}

fn req_inner(v: &JsValue) -> &ReqInner {
  match v.kind() {
    Some(Kind::Request(r)) => r,
    _ => panic!("not a request"),
  }
}

fn tx_inner(v: &JsValue) -> &Rc<TxInner> {
  match v.kind() {
    Some(Kind::Transaction(t)) => t,
    _ => panic!("not a transaction"),
  }
}

fn new_request(op: ReqOp) -> JsValue {
  JsValue::from_kind(Kind::Request(ReqInner {
    op,
    result: RefCell::new(None),
    error: RefCell::new(None),
    done: Cell::new(false),
    onsuccess: RefCell::new(None),
    onerror: RefCell::new(None),
    onupgradeneeded: RefCell::new(None),
  }))
}

fn event(target: &JsValue) -> JsValue {
  JsValue::from_kind(Kind::Event { target: target.clone() })
}

fn fire(handler: &RefCell<Option<JsValue>>, target: &JsValue) {
  let h = handler.borrow().clone();
  if let Some(h) = h {
    h.call1(event(target));
  }
}

// ---- called by the web-sys surface -------------------------------------------------------
pub fn factory_open(name: &str, version: u32) -> Result<JsValue, JsValue> {
  if version == 0 {
    return Err(JsValue::from_str("TypeError: version must be positive"));
  }
  let req = new_request(ReqOp::Open { name: name.to_string(), version });
  SIM.with(|s| s.borrow_mut().auto.push_back(Auto::Open(req.clone())));
  Ok(req)
}

pub fn db_create_object_store(db: &str, store: &str) -> Result<JsValue, JsValue> {
  SIM.with(|s| {
    let mut s = s.borrow_mut();
    if s.upgrading.as_deref() != Some(db) {
      return Err(dom("InvalidStateError", "createObjectStore outside a version change"));
    }
    let d = s.dbs.entry(db.to_string()).or_default();
    if d.stores.contains_key(store) {
      return Err(dom("ConstraintError", "object store exists"));
    }
    d.stores.insert(store.to_string(), BTreeMap::new());
    Ok(JsValue::from_kind(Kind::PlainObject))
  })
}

pub fn db_transaction(db: &str, store: &str, readwrite: bool) -> Result<JsValue, JsValue> {
  SIM.with(|s| {
    let mut s = s.borrow_mut();
    let ok = s.dbs.get(db).map(|d| d.stores.contains_key(store)).unwrap_or(false);
    if !ok {
      return Err(dom("NotFoundError", "no such object store"));
    }
    let id = s.next_tx;
    s.next_tx += 1;
    let tx = JsValue::from_kind(Kind::Transaction(Rc::new(TxInner {
      id,
      db: db.to_string(),
      store: store.to_string(),
      readwrite,
      reqs: RefCell::new(Vec::new()),
      executed: Cell::new(0),
      finished: Cell::new(false),
      oncomplete: RefCell::new(None),
      onerror: RefCell::new(None),
      onabort: RefCell::new(None),
      writes: RefCell::new(Vec::new()),
    })));
    if readwrite {
      s.rw.push(tx.clone());
    }
    Ok(tx)
  })
}

pub fn tx_request(tx: &Rc<TxInner>, op: ReqOp) -> Result<JsValue, JsValue> {
  if tx.finished.get() {
    return Err(dom("TransactionInactiveError", "transaction finished"));
  }
  let write = matches!(op, ReqOp::Put { .. } | ReqOp::Delete { .. });
  if write && !tx.readwrite {
    return Err(dom("ReadOnlyError", "write in a read-only transaction"));
  }
  let req = new_request(op);
  tx.reqs.borrow_mut().push(req.clone());
  if !tx.readwrite {
    let txv = JsValue(crate::Val::Obj(Rc::new(Kind::Transaction(tx.clone()))));
    SIM.with(|s| s.borrow_mut().auto.push_back(Auto::Read(req.clone(), txv)));
  }
  Ok(req)
}

// ---- harness side ------------------------------------------------------------------------
pub fn reset() {
  SIM.with(|s| *s.borrow_mut() = Sim::default());
}

pub fn auto_pending() -> bool {
  SIM.with(|s| !s.borrow().auto.is_empty())
}

/// Runs one automatic event (database open / upgrade, read-only request). Returns false when
/// there was none.
pub fn run_auto_one() -> bool {
  let ev = SIM.with(|s| s.borrow_mut().auto.pop_front());
  match ev {
    None => false,
    Some(Auto::Open(req)) => {
      let (name, version) = match &req_inner(&req).op {
        ReqOp::Open { name, version } => (name.clone(), *version),
        _ => unreachable!(),
      };
      let upgrade = SIM.with(|s| {
        let mut s = s.borrow_mut();
        let cur = s.dbs.get(&name).map(|d| d.version).unwrap_or(0);
        if cur < version {
          s.dbs.entry(name.clone()).or_default().version = version;
          s.upgrading = Some(name.clone());
          true
        } else {
          false
        }
      });
      let handle = JsValue::from_kind(Kind::Database(DbHandle { name }));
      *req_inner(&req).result.borrow_mut() = Some(handle);
      if upgrade {
        fire(&req_inner(&req).onupgradeneeded, &req);
        SIM.with(|s| {
          let mut s = s.borrow_mut();
          s.upgrading = None;
          s.auto.push_front(Auto::OpenSuccess(req.clone()));
        });
      } else {
        req_inner(&req).done.set(true);
        fire(&req_inner(&req).onsuccess, &req);
      }
      true
    }
    Some(Auto::OpenSuccess(req)) => {
      req_inner(&req).done.set(true);
      fire(&req_inner(&req).onsuccess, &req);
      true
    }
    Some(Auto::Read(req, txv)) => {
      let tx = tx_inner(&txv).clone();
      let rows: Vec<(String, Rc<Vec<u8>>)> = SIM.with(|s| {
        let s = s.borrow();
        if !s.rw.is_empty() {
          // a read-only transaction would have to wait for these; wasm.rs never does this
          panic!("sim: read-only request while read-write transactions are open");
        }
        s.dbs
          .get(&tx.db)
          .and_then(|d| d.stores.get(&tx.store))
          .map(|m| m.iter().map(|(k, v)| (k.clone(), v.clone())).collect())
          .unwrap_or_default()
      });
      let result = match &req_inner(&req).op {
        ReqOp::GetAllKeys => crate::js::Array::from_vec(rows.iter().map(|(k, _)| JsValue::from_str(k)).collect()),
        ReqOp::GetAll => crate::js::Array::from_vec(
          rows.iter().map(|(_, v)| JsValue::from_kind(Kind::Uint8Array(v.clone()))).collect(),
        ),
        _ => unreachable!(),
      };
      *req_inner(&req).result.borrow_mut() = Some(result.into());
      req_inner(&req).done.set(true);
      tx.executed.set(tx.executed.get() + 1);
      fire(&req_inner(&req).onsuccess, &req);
      true
    }
  }
}

#[derive(Clone, Debug)]
pub struct TxInfo {
  pub id: usize,
  /// key of the first put/delete
  pub key: String,
  pub delete: bool,
  /// every request of the transaction has succeeded
  pub req_done: bool,
  pub requests: usize,
}

/// Open read-write transactions in creation order.
pub fn rw_info() -> Vec<TxInfo> {
  SIM.with(|s| {
    s.borrow()
      .rw
      .iter()
      .map(|t| {
        let tx = tx_inner(t);
        let reqs = tx.reqs.borrow();
        let (key, delete) = reqs
          .iter()
          .find_map(|r| match &req_inner(r).op {
            ReqOp::Put { key, .. } => Some((key.clone(), false)),
            ReqOp::Delete { key } => Some((key.clone(), true)),
            _ => None,
          })
          .unwrap_or((String::new(), false));
        TxInfo { id: tx.id, key, delete, req_done: tx.executed.get() == reqs.len(), requests: reqs.len() }
      })
      .collect()
  })
}

/// The next request of the i-th open read-write transaction executes and its success event fires.
pub fn rw_req(i: usize) {
  let txv = SIM.with(|s| s.borrow().rw[i].clone());
  let tx = tx_inner(&txv).clone();
  let k = tx.executed.get();
  let req = tx.reqs.borrow()[k].clone();
  match &req_inner(&req).op {
    ReqOp::Put { key, value } => {
      tx.writes.borrow_mut().push((key.clone(), Some(value.clone())));
      *req_inner(&req).result.borrow_mut() = Some(JsValue::from_str(key));
    }
    ReqOp::Delete { key } => {
      tx.writes.borrow_mut().push((key.clone(), None));
      *req_inner(&req).result.borrow_mut() = Some(JsValue::undefined());
    }
    _ => panic!("sim: read request in a read-write transaction is not supported"),
  }
  req_inner(&req).done.set(true);
  tx.executed.set(k + 1);
  fire(&req_inner(&req).onsuccess, &req);
}

/// The i-th open read-write transaction (all requests done) commits: its writes become durable
/// and its complete event fires.
pub fn rw_done(i: usize) {
  let txv = SIM.with(|s| s.borrow_mut().rw.remove(i));
  let tx = tx_inner(&txv).clone();
  assert_eq!(tx.executed.get(), tx.reqs.borrow().len(), "sim: completing a transaction with pending requests");
  SIM.with(|s| {
    let mut s = s.borrow_mut();
    let store = s.dbs.entry(tx.db.clone()).or_default().stores.entry(tx.store.clone()).or_default();
    for (k, v) in tx.writes.borrow().iter() {
      match v {
        Some(b) => {
          store.insert(k.clone(), b.clone());
        }
        None => {
          store.remove(k);
        }
      }
    }
  });
  tx.finished.set(true);
  fire(&tx.oncomplete, &txv);
}

/// The durable content of all databases (what survives closing the page).
pub fn durable() -> BTreeMap<String, DbDurable> {
  SIM.with(|s| s.borrow().dbs.clone())
}

/// Fresh page over the given durable content.
pub fn install(dbs: BTreeMap<String, DbDurable>) {
  SIM.with(|s| {
    let mut s = s.borrow_mut();
    *s = Sim::default();
    s.dbs = dbs;
  });
}
