//! Host shim of `wasm-bindgen` for the C27 correspondence harness.
//!
//! It provides exactly the items `searchlite-wasm/src/wasm.rs` uses, with the same names and
//! signatures as the real crates (wasm-bindgen 0.2 / js-sys 0.3 / web-sys 0.3 /
//! wasm-bindgen-futures 0.4), backed by
//!   * a dynamically typed `JsValue` object model (`Val` / `Kind`),
//!   * a simulated IndexedDB (`sim`): open requests, one object store per database, read-only
//!     and read-write transactions; a put/delete becomes durable only when its transaction
//!     completes; request success and transaction completion of read-write transactions are
//!     explicit scheduler choices of the harness,
//!   * a deterministic single-threaded executor (`exec`): `spawn_local` queues the task, wakers
//!     append to a FIFO run queue, the harness decides which runnable task is polled.
//! The thin crates `js-sys`, `web-sys`, `wasm-bindgen-futures` re-export the modules below.

use std::any::Any;
use std::cell::{Cell, RefCell};
use std::marker::PhantomData;
use std::rc::Rc;

pub use wasm_bindgen_macro::wasm_bindgen;

pub mod exec;
pub mod js;
pub mod sim;
pub mod web;

// ------------------------------------------------------------------------------------------
// values
#[derive(Clone)]
pub enum Val {
  Undefined,
  Null,
  Bool(bool),
  Num(f64),
  Str(Rc<str>),
  Obj(Rc<Kind>),
}

/// The simulated JS objects.
pub enum Kind {
  Global,
  Factory,
  Database(sim::DbHandle),
  Request(sim::ReqInner),
  Transaction(Rc<sim::TxInner>),
  ObjectStore(Rc<sim::TxInner>),
  Event { target: JsValue },
  Function(FnInner),
  Array(RefCell<Vec<JsValue>>),
  Uint8Array(Rc<Vec<u8>>),
  DomException(String),
  PlainObject,
  /// host data carried through JS-land untouched (serde-wasm-bindgen shim)
  Opaque(Box<dyn Any>),
}

#[derive(Clone)]
pub struct JsValue(pub Val);

impl JsValue {
  pub const NULL: JsValue = JsValue(Val::Null);
  pub const UNDEFINED: JsValue = JsValue(Val::Undefined);

  pub fn from_str(s: &str) -> JsValue {
    JsValue(Val::Str(Rc::from(s)))
  }
  pub fn from_f64(n: f64) -> JsValue {
    JsValue(Val::Num(n))
  }
  pub fn from_bool(b: bool) -> JsValue {
    JsValue(Val::Bool(b))
  }
  pub fn null() -> JsValue {
    JsValue(Val::Null)
  }
  pub fn undefined() -> JsValue {
    JsValue(Val::Undefined)
  }
  pub fn is_null(&self) -> bool {
    matches!(self.0, Val::Null)
  }
  pub fn is_undefined(&self) -> bool {
    matches!(self.0, Val::Undefined)
  }
  pub fn as_string(&self) -> Option<String> {
    match &self.0 {
      Val::Str(s) => Some(s.to_string()),
      _ => None,
    }
  }
  pub fn as_f64(&self) -> Option<f64> {
    match &self.0 {
      Val::Num(n) => Some(*n),
      _ => None,
    }
  }
  pub fn as_bool(&self) -> Option<bool> {
    match &self.0 {
      Val::Bool(b) => Some(*b),
      _ => None,
    }
  }
  // ---- shim-only helpers
  pub fn from_kind(k: Kind) -> JsValue {
    JsValue(Val::Obj(Rc::new(k)))
  }
  pub fn kind(&self) -> Option<&Kind> {
    match &self.0 {
      Val::Obj(o) => Some(o),
      _ => None,
    }
  }
  pub fn same_object(&self, other: &JsValue) -> bool {
    match (&self.0, &other.0) {
      (Val::Obj(a), Val::Obj(b)) => Rc::ptr_eq(a, b),
      _ => false,
    }
  }
  /// Calls a simulated JS function value with one argument (no-op for anything else).
  pub fn call1(&self, arg: JsValue) {
    if let Some(Kind::Function(f)) = self.kind() {
      f.call(arg);
    }
  }
}

impl std::fmt::Debug for JsValue {
  fn fmt(&self, f: &mut std::fmt::Formatter<'_>) -> std::fmt::Result {
    match &self.0 {
      Val::Undefined => write!(f, "JsValue(undefined)"),
      Val::Null => write!(f, "JsValue(null)"),
      Val::Bool(b) => write!(f, "JsValue({b})"),
      Val::Num(n) => write!(f, "JsValue({n})"),
      Val::Str(s) => write!(f, "JsValue({s:?})"),
      Val::Obj(o) => match &**o {
        Kind::DomException(m) => write!(f, "JsValue(DOMException: {m})"),
        Kind::Uint8Array(b) => write!(f, "JsValue(Uint8Array[{}])", b.len()),
        _ => write!(f, "JsValue(Object)"),
      },
    }
  }
}

impl PartialEq for JsValue {
  fn eq(&self, other: &JsValue) -> bool {
    match (&self.0, &other.0) {
      (Val::Undefined, Val::Undefined) | (Val::Null, Val::Null) => true,
      (Val::Bool(a), Val::Bool(b)) => a == b,
      (Val::Num(a), Val::Num(b)) => a == b,
      (Val::Str(a), Val::Str(b)) => a == b,
      (Val::Obj(a), Val::Obj(b)) => Rc::ptr_eq(a, b),
      _ => false,
    }
  }
}

impl From<&str> for JsValue {
  fn from(s: &str) -> JsValue {
    JsValue::from_str(s)
  }
}
impl From<String> for JsValue {
  fn from(s: String) -> JsValue {
    JsValue::from_str(&s)
  }
}
impl From<bool> for JsValue {
  fn from(b: bool) -> JsValue {
    JsValue::from_bool(b)
  }
}
impl From<f64> for JsValue {
  fn from(n: f64) -> JsValue {
    JsValue::from_f64(n)
  }
}
impl<T> From<Option<T>> for JsValue
where
  JsValue: From<T>,
{
  fn from(o: Option<T>) -> JsValue {
    match o {
      Some(v) => JsValue::from(v),
      None => JsValue::undefined(),
    }
  }
}
impl AsRef<JsValue> for JsValue {
  fn as_ref(&self) -> &JsValue {
    self
  }
}

// ------------------------------------------------------------------------------------------
// casts
pub trait JsCast: AsRef<JsValue> + Into<JsValue> + Sized {
  fn instanceof(val: &JsValue) -> bool;
  fn unchecked_from_js(val: JsValue) -> Self;
  fn unchecked_from_js_ref(val: &JsValue) -> &Self;

  fn has_type<T: JsCast>(&self) -> bool {
    T::instanceof(self.as_ref())
  }
  fn dyn_into<T: JsCast>(self) -> Result<T, Self> {
    if self.has_type::<T>() {
      Ok(self.unchecked_into())
    } else {
      Err(self)
    }
  }
  fn dyn_ref<T: JsCast>(&self) -> Option<&T> {
    if self.has_type::<T>() {
      Some(self.unchecked_ref())
    } else {
      None
    }
  }
  fn unchecked_into<T: JsCast>(self) -> T {
    T::unchecked_from_js(self.into())
  }
  fn unchecked_ref<T: JsCast>(&self) -> &T {
    T::unchecked_from_js_ref(self.as_ref())
  }
}

impl JsCast for JsValue {
  fn instanceof(_val: &JsValue) -> bool {
    true
  }
  fn unchecked_from_js(val: JsValue) -> Self {
    val
  }
  fn unchecked_from_js_ref(val: &JsValue) -> &Self {
    val
  }
}

/// Declares a `#[repr(transparent)]` wrapper type over `JsValue`, like the imported JS types
/// of js-sys / web-sys.
#[macro_export]
macro_rules! js_type {
  ($name:ident, |$v:ident| $test:expr) => {
    #[derive(Clone, Debug)]
    #[repr(transparent)]
    pub struct $name {
      pub(crate) obj: $crate::JsValue,
    }
    impl $crate::JsCast for $name {
      fn instanceof($v: &$crate::JsValue) -> bool {
        $test
      }
      fn unchecked_from_js(val: $crate::JsValue) -> Self {
        $name { obj: val }
      }
      fn unchecked_from_js_ref(val: &$crate::JsValue) -> &Self {
        // SAFETY: repr(transparent) over JsValue
        unsafe { &*(val as *const $crate::JsValue as *const $name) }
      }
    }
    impl AsRef<$crate::JsValue> for $name {
      fn as_ref(&self) -> &$crate::JsValue {
        &self.obj
      }
    }
    impl From<$name> for $crate::JsValue {
      fn from(v: $name) -> $crate::JsValue {
        v.obj
      }
    }
    impl std::ops::Deref for $name {
      type Target = $crate::JsValue;
      fn deref(&self) -> &$crate::JsValue {
        &self.obj
      }
    }
  };
}

// ------------------------------------------------------------------------------------------
// closures
pub struct FnInner {
  f: RefCell<Option<Box<dyn FnMut(JsValue)>>>,
  running: Cell<bool>,
  dropped: Cell<bool>,
}

impl FnInner {
  /// Invokes the closure.  A closure whose Rust `Closure` handle was dropped is not invoked
  /// (real wasm-bindgen throws); dropping the handle while it runs is deferred to the return.
  pub fn call(&self, arg: JsValue) {
    if self.dropped.get() {
      sim::console_log("closure invoked after being dropped".into());
      return;
    }
    let taken = self.f.borrow_mut().take();
    if let Some(mut f) = taken {
      self.running.set(true);
      f(arg);
      self.running.set(false);
      if !self.dropped.get() {
        *self.f.borrow_mut() = Some(f);
      }
    }
  }
}

pub trait WasmClosure {
  fn into_fn(b: Box<Self>) -> Box<dyn FnMut(JsValue)>;
}

impl<A: JsCast + 'static> WasmClosure for dyn FnMut(A) {
  fn into_fn(mut b: Box<Self>) -> Box<dyn FnMut(JsValue)> {
    Box::new(move |v: JsValue| b(A::unchecked_from_js(v)))
  }
}

pub mod closure {
  pub use super::{Closure, WasmClosure};
}

pub struct Closure<T: ?Sized> {
  js: JsValue,
  _p: PhantomData<Box<T>>,
}

impl<T: ?Sized + WasmClosure> Closure<T> {
  pub fn wrap(data: Box<T>) -> Closure<T> {
    let js = JsValue::from_kind(Kind::Function(FnInner {
      f: RefCell::new(Some(T::into_fn(data))),
      running: Cell::new(false),
      dropped: Cell::new(false),
    }));
    Closure { js, _p: PhantomData }
  }
}

impl<T: ?Sized> AsRef<JsValue> for Closure<T> {
  fn as_ref(&self) -> &JsValue {
    &self.js
  }
}

impl<T: ?Sized> Drop for Closure<T> {
  fn drop(&mut self) {
    if let Some(Kind::Function(f)) = self.js.kind() {
      f.dropped.set(true);
      if !f.running.get() {
        f.f.borrow_mut().take();
      }
    }
  }
}

pub mod prelude {
  pub use super::closure::Closure;
  pub use super::wasm_bindgen;
  pub use super::JsCast;
  pub use super::JsValue;
}
