//! js-sys surface used by wasm.rs: `global`, `Object`, `Reflect::get`, `Array`, `Uint8Array`,
//! `Function`.
use crate::{js_type, JsValue, Kind};
use std::cell::RefCell;
use std::rc::Rc;

js_type!(Object, |v| v.kind().is_some());
js_type!(Function, |v| matches!(v.kind(), Some(Kind::Function(_))));
js_type!(Array, |v| matches!(v.kind(), Some(Kind::Array(_))));
js_type!(Uint8Array, |v| matches!(v.kind(), Some(Kind::Uint8Array(_))));

thread_local! {
  static GLOBAL: JsValue = JsValue::from_kind(Kind::Global);
  static FACTORY: JsValue = JsValue::from_kind(Kind::Factory);
}

/// `globalThis`
pub fn global() -> Object {
  Object { obj: GLOBAL.with(|g| g.clone()) }
}

impl Object {
  pub fn new() -> Object {
    Object { obj: JsValue::from_kind(Kind::PlainObject) }
  }
}

#[allow(non_snake_case)]
pub mod Reflect {
  use super::*;
  /// `Reflect.get(target, key)`; the simulated global object has one property, `indexedDB`.
  pub fn get(target: &JsValue, key: &JsValue) -> Result<JsValue, JsValue> {
    match (target.kind(), key.as_string().as_deref()) {
      (Some(Kind::Global), Some("indexedDB")) => Ok(FACTORY.with(|f| f.clone())),
      (Some(_), _) => Ok(JsValue::undefined()),
      (None, _) => Err(JsValue::from_str("TypeError: Reflect.get called on non-object")),
    }
  }
}

impl Array {
  pub fn new() -> Array {
    Array { obj: JsValue::from_kind(Kind::Array(RefCell::new(Vec::new()))) }
  }
  pub fn from_vec(v: Vec<JsValue>) -> Array {
    Array { obj: JsValue::from_kind(Kind::Array(RefCell::new(v))) }
  }
  pub fn push(&self, v: &JsValue) -> u32 {
    if let Some(Kind::Array(a)) = self.obj.kind() {
      a.borrow_mut().push(v.clone());
      a.borrow().len() as u32
    } else {
      0
    }
  }
  pub fn length(&self) -> u32 {
    match self.obj.kind() {
      Some(Kind::Array(a)) => a.borrow().len() as u32,
      _ => 0,
    }
  }
  pub fn get(&self, i: u32) -> JsValue {
    match self.obj.kind() {
      Some(Kind::Array(a)) => a.borrow().get(i as usize).cloned().unwrap_or(JsValue::undefined()),
      _ => JsValue::undefined(),
    }
  }
  pub fn iter(&self) -> std::vec::IntoIter<JsValue> {
    match self.obj.kind() {
      Some(Kind::Array(a)) => a.borrow().clone().into_iter(),
      _ => Vec::new().into_iter(),
    }
  }
}

impl Uint8Array {
  /// `new Uint8Array(value)`: copies a typed array; anything else gives an empty array.
  pub fn new(value: &JsValue) -> Uint8Array {
    match value.kind() {
      Some(Kind::Uint8Array(b)) => Uint8Array { obj: JsValue::from_kind(Kind::Uint8Array(b.clone())) },
      _ => Uint8Array { obj: JsValue::from_kind(Kind::Uint8Array(Rc::new(Vec::new()))) },
    }
  }
  pub fn to_vec(&self) -> Vec<u8> {
    match self.obj.kind() {
      Some(Kind::Uint8Array(b)) => b.to_vec(),
      _ => Vec::new(),
    }
  }
  pub fn length(&self) -> u32 {
    self.to_vec().len() as u32
  }
}

impl From<&[u8]> for Uint8Array {
  fn from(data: &[u8]) -> Uint8Array {
    Uint8Array { obj: JsValue::from_kind(Kind::Uint8Array(Rc::new(data.to_vec()))) }
  }
}
