//! Deterministic single-threaded executor under harness control.
//! `spawn` only queues (like the microtask-driven queue of wasm-bindgen-futures); a waker appends
//! its task to the FIFO run queue unless it is already queued; the harness picks which runnable
//! task is polled next.
use std::cell::RefCell;
use std::collections::{BTreeMap, BTreeSet, VecDeque};
use std::future::Future;
use std::pin::Pin;
use std::sync::Arc;
use std::task::{Context, Poll, Wake, Waker};

pub type Fut = Pin<Box<dyn Future<Output = ()>>>;

#[derive(Default)]
struct Exec {
  tasks: BTreeMap<usize, Option<Fut>>,
  runq: VecDeque<usize>,
  queued: BTreeSet<usize>,
  next: usize,
}

thread_local! {
  static EXEC: RefCell<Exec> = RefCell::new(Exec::default());
}

struct W {
  id: usize,
}

impl Wake for W {
  fn wake(self: Arc<Self>) {
    enqueue(self.id);
  }
  fn wake_by_ref(self: &Arc<Self>) {
    enqueue(self.id);
  }
}

fn enqueue(id: usize) {
  EXEC.with(|e| {
    let mut e = e.borrow_mut();
    if e.tasks.contains_key(&id) && e.queued.insert(id) {
      e.runq.push_back(id);
    }
  })
}

/// Queues a new task; returns its id.
pub fn spawn(f: Fut) -> usize {
  EXEC.with(|e| {
    let mut e = e.borrow_mut();
    let id = e.next;
    e.next += 1;
    e.tasks.insert(id, Some(f));
    e.queued.insert(id);
    e.runq.push_back(id);
    id
  })
}

/// The run queue, oldest first.
pub fn runnable() -> Vec<usize> {
  EXEC.with(|e| e.borrow().runq.iter().copied().collect())
}

pub fn alive(id: usize) -> bool {
  EXEC.with(|e| e.borrow().tasks.contains_key(&id))
}

/// Polls one queued task once. Returns `true` when the task finished.
pub fn poll(id: usize) -> bool {
  let fut = EXEC.with(|e| {
    let mut e = e.borrow_mut();
    if !e.queued.remove(&id) {
      return None;
    }
    e.runq.retain(|x| *x != id);
    e.tasks.get_mut(&id).and_then(|t| t.take())
  });
  let mut fut = match fut {
    Some(f) => f,
    None => panic!("exec::poll: task {id} is not runnable"),
  };
  let waker = Waker::from(Arc::new(W { id }));
  let mut cx = Context::from_waker(&waker);
  match fut.as_mut().poll(&mut cx) {
    Poll::Ready(()) => {
      EXEC.with(|e| {
        let mut e = e.borrow_mut();
        e.tasks.remove(&id);
        if e.queued.remove(&id) {
          e.runq.retain(|x| *x != id);
        }
      });
      drop(fut);
      true
    }
    Poll::Pending => {
      EXEC.with(|e| {
        if let Some(slot) = e.borrow_mut().tasks.get_mut(&id) {
          *slot = Some(fut);
        }
      });
      false
    }
  }
}
