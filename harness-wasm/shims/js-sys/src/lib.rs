//! Host shim of `js-sys`: re-exports the simulated objects of the `wasm-bindgen` shim.
pub use wasm_bindgen::js::*;
