//! Host shim of `serde-wasm-bindgen`: values cross "JS-land" as an opaque `serde_json::Value`.
use wasm_bindgen::{JsValue, Kind};

#[derive(Debug)]
pub struct Error(String);
impl std::fmt::Display for Error {
  fn fmt(&self, f: &mut std::fmt::Formatter<'_>) -> std::fmt::Result {
    write!(f, "{}", self.0)
  }
}
impl std::error::Error for Error {}

pub fn to_value<T: serde::Serialize + ?Sized>(value: &T) -> Result<JsValue, Error> {
  let v = serde_json::to_value(value).map_err(|e| Error(e.to_string()))?;
  Ok(JsValue::from_kind(Kind::Opaque(Box::new(v))))
}

pub fn from_value<T: serde::de::DeserializeOwned>(value: JsValue) -> Result<T, Error> {
  match value.kind() {
    Some(Kind::Opaque(any)) => match any.downcast_ref::<serde_json::Value>() {
      Some(v) => serde_json::from_value(v.clone()).map_err(|e| Error(e.to_string())),
      None => Err(Error("not a serde value".into())),
    },
    _ => match value.as_string() {
      Some(s) => serde_json::from_value(serde_json::Value::String(s)).map_err(|e| Error(e.to_string())),
      None => Err(Error("unsupported JsValue".into())),
    },
  }
}
