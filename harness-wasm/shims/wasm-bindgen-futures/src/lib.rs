//! Host shim of `wasm-bindgen-futures`: `spawn_local` queues the future on the harness-controlled
//! executor of the `wasm-bindgen` shim (it is never polled inline, like the real microtask queue).
pub fn spawn_local<F>(future: F)
where
  F: std::future::Future<Output = ()> + 'static,
{
  wasm_bindgen::exec::spawn(Box::pin(future));
}
