//! Host shim of `web-sys`: re-exports the simulated IndexedDB objects of the `wasm-bindgen` shim.
pub use wasm_bindgen::web::*;
