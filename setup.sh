#!/bin/sh
# MANIFEST.setup_cmd: builds the whole framework offline from files on disk.
set -e
cd "$(dirname "$0")"
export CARGO_NET_OFFLINE=true
mkdir -p .cache evidence replays
( cd coq && ./gen_project.sh && timeout 3000 make -j16 ) 
REPO="${SLV_REPO:-/repo}"
sed "s#@REPO@#$REPO#g" harness/Cargo.toml.in > harness/Cargo.toml
cp -f "$REPO/Cargo.lock" harness/Cargo.lock
( cd harness && RUSTFLAGS="--cfg searchlite_verif" CARGO_TARGET_DIR="${SLV_TARGET:-$PWD/../.cache/target}" timeout 3000 cargo build --offline --bins )
( cd "$REPO" && CARGO_TARGET_DIR="${SLV_CLI_TARGET:-${SLV_TARGET:-$OLDPWD/.cache/target}-cli}" timeout 3000 cargo build --offline -p searchlite-cli )
if [ -d harness-wasm ]; then
  sed "s#@REPO@#$REPO#g" harness-wasm/Cargo.toml.in > harness-wasm/Cargo.toml
  [ -f harness-wasm/Cargo.lock ] || cp -f "$REPO/Cargo.lock" harness-wasm/Cargo.lock
  ( cd harness-wasm && SLV_REPO="$REPO" RUSTFLAGS="--cfg searchlite_verif" CARGO_TARGET_DIR="${SLV_TARGET:-$PWD/../.cache/target}/wasm-host" timeout 3000 cargo build --offline --bin c27 )
fi
echo "setup ok"
