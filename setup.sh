#!/bin/sh
# MANIFEST.setup_cmd: builds the whole framework offline from files on disk.
set -e
cd "$(dirname "$0")"
export CARGO_NET_OFFLINE=true
mkdir -p .cache evidence replays
( cd coq && ./gen_project.sh && timeout 3000 make -j16 ) 
cp -f /repo/Cargo.lock harness/Cargo.lock
( cd harness && RUSTFLAGS="--cfg searchlite_verif" CARGO_TARGET_DIR=/verif/.cache/target timeout 3000 cargo build --offline --bins )
echo "setup ok"
