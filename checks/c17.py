import vlib

SPEC = {
    "props_module": "C17",
    "model_vo": "theories/C17/Model.vo",
    "bin": "c17",
    # quick: probes per generated index (2 indexes); thorough ignores it (exhaustive)
    "n": {"quick": 1000, "thorough": 0},
    "crash_is_violation": True,
    "engine_timeout": 1500,
    "rule": "engine c17: two small indexes on disk (FsStorage; 2-3 committed segments with deletions, uncommitted "
            "operations left in wal.log). Every file (MANIFEST.json, seg_*.meta/.terms/.post/.docs/.fast, wal.log) is damaged "
            "by a single-byte xor with masks 0x01/0x80/0xFF at a position, or truncated to a length (quick: ~1000 sampled probes "
            "per index, MANIFEST.json with a triple share; thorough: every position x every mask and every truncation length), "
            "then the real Index::open + reader() + 5 searches (match_all+stored, term, keyword filter, range filter+sort, "
            "query string) run under catch_unwind and are classified error / same / different / panic against the intact "
            "index; for wal.log the real Wal::replay, Wal::last_pending_ops and Index::writer() run instead. Plus WAL codec "
            "cases (harness/src/walcodec.rs): random record sequences through Wal::append_* (bytes vs encode_all) and "
            "truncated / flipped / zero-filled / crafted / over-long-varint / garbage logs through Wal::replay. "
            "Every probe is non-trivial (it changes a file); distinct = distinct (index, file, kind, position, mask).",
    "trusted_base": [
        "C17/Model.v models the checksum gate of SegmentReader::open (verify_checksums), read_terms, the docstore and "
        "fast-field headers and the WAL codec; MANIFEST.json parsing, the .meta JSON, the postings and fast-field column "
        "decoders are oracles (any behaviour) - the theorems hold whatever they return",
        "allocation failure (abort) inside Vec::with_capacity on a crafted count is not modelled (only the certain "
        "'capacity overflow' panic is); unreachable behind the checksum gate for single-byte changes",
        "the engine's classification compares serde_json renderings of SearchResult with hits sorted by doc id",
    ],
    "assumptions": [
        "search results of an unchanged index are deterministic (asserted by the engine on every index, before and after the sweep)",
        "truncation: a proper prefix of a file has a different CRC-32 than the file (hypothesis of C17_truncation_partial; "
        "evaluated by the model on every truncation case of the run)",
        "a byte change inside the length varint of a WAL record does not produce a record that validates by accident "
        "(outside C17_wal_byte_flip; the tie evaluates the model on every such case)",
    ],
}


def run(ctx):
    return vlib.standard_check(ctx, SPEC)


MANIFEST_ENTRY = {
    "text": "Proof (Coq, closed under the global context): CRC-32 as computed bit by bit changes whenever exactly one byte changes "
            "(C17_crc32_detects_single_byte, no hypothesis), hence any single-byte change of any of the five checksummed files of a "
            "committed segment makes SegmentReader::open / IndexReader::open return an error whatever the JSON and column parsers do "
            "(C17_segment_byte_flip, C17_reader_open_rejects; C17_segment_byte_flip_generic for an abstract checksum); truncation "
            "is rejected when the prefix's CRC differs (C17_truncation_partial - that inequality is a hypothesis). Write-ahead log: "
            "records wholly before any damage are always recovered (C17_wal_prefix), a truncation leaves exactly the complete "
            "records (C17_wal_truncation), a changed byte in tag/payload/checksum of a record stops replay exactly before it "
            "(C17_wal_byte_flip). No panic: replay, read_u64 (after fix), read_u32_var, docstore and fast-field headers are total "
            "(C17_parsers_total); read_terms can panic on crafted bytes (C17_read_terms_can_panic) but only behind matching "
            "checksums (C17_parsers_panic_guarded). Carried by the tie only: MANIFEST.json (no checksum, parser not modelled) - "
            "'error or same results' is checked on every probe; the known finding class 1 covers probes inside MANIFEST.json "
            "that still parse and change results. 'Searching returns the same results' for intact segments is the tie's.",
    "note": "Trusted: Coq kernel; hand-written model of the open path (JSON parsers and column decoders are oracles); the Rust "
            "engine's classification; CRC-32 model validated against crc32fast on every file of every generated index and on "
            "every WAL record. Fix in /repo: read_u64 returned garbage / panicked on >= 10 continuation bytes.",
    "technique": "Coq proof (CRC-32 single-byte detection, checksum gate, WAL codec) + exhaustive/sampled on-disk fault sweep "
                 "against the real Index::open/search and Wal::replay, every case evaluated against the model by vm_compute",
}
