import vlib

SPEC = {
    "props_module": "C03",
    "model_vo": "theories/C03/Model.vo",
    "bin": "c03",
    "n": {"quick": 8, "thorough": 40},
    "engine_timeout": 2400,
    "rule": "engine c03: single-handle histories (quick 6-17 calls, thorough 8-25) over a fault-injecting wrapper of the public "
            "InMemoryStorage that counts every Storage / StorageFile call; after a fault-free run, the history is re-run once "
            "for EVERY storage call index x {fail before its effect, fail after it} (single faults) and for sampled ordered "
            "pairs (quick n/2 pairs, thorough 4n); after every API call: result, contents through a new reader of the running "
            "index, contents through Index::open_with_storage on the same storage; finally a healthy writer commits and both "
            "views are compared. Coq evaluates the executable specification (possibility-set tracking) and checks every "
            "faulted commit's outcome against the commit-under-faults model. A run is non-trivial when a fault fired; "
            "distinct = distinct (history, fault plan)",
    "trusted_base": [
        "the fault-injecting storage wrapper harness/src/faulty.rs (fails a call before or after delegating to InMemoryStorage)",
        "C03/Model.v commit_f is a hand transcription of the ?/if-let-Err structure of IndexWriter::commit; add/delete/"
        "rollback/compact under faults are covered by the executable specification on real runs only",
    ],
    "assumptions": ["one live writer handle at a time; in-memory storage (the public Storage trait is the fault surface)"],
}


def run(ctx):
    return vlib.standard_check(ctx, SPEC)


MANIFEST_ENTRY = {
    "text": "Proof (Coq, closed; finite sweep over all 3^8 fault assignments lifted by forallb_forall): C03_single_fault - with "
            "at most one failing storage call (before or after its effect) anywhere in a commit, the commit returns an error "
            "with running and stored contents unchanged and the queue kept, or success with both showing the new state, and the "
            "stored manifest never refers to a missing segment; C03_any_faults_openable - for any number of failing calls the "
            "stored manifest never refers to missing files; C03_add_fault_safe / C03_rollback_fault_safe / "
            "C03_compact_faults_openable / C03_compact_ok_complete - the same for add/delete, rollback and compaction (small "
            "models of their ?-structure; compaction may leave memory and storage on different but content-equal segment lists, "
            "both referring to existing files); C03_unfixed_* show the two defects of the code as found (repaired). "
            "All of add/delete/commit/rollback/compaction under every single fault position and sampled double faults are decided "
            "on the real implementation by the executable specification C03.Model.spec evaluated in Coq.",
    "note": "Trusted: Coq kernel; the commit-path model; the fault-injecting wrapper. Partial: only commit has a Coq model under "
            "faults; the other calls are covered by spec-checked exhaustive single-fault enumeration on real runs (fault_enumeration "
            "in spirit) - stated in DESIGN.md C03.",
    "technique": "Coq proof by exhaustive finite sweep over a commit-under-faults model + Coq-evaluated specification on exhaustive single-fault enumeration of real runs",
}
