import vlib

SPEC = {
    "props_module": "C03",
    "model_vo": "theories/C03/Model.vo",
    "check_fn": "C03.History.check_case_h",
    "bin": "c03",
    "n": {"quick": 8, "thorough": 40},
    "engine_timeout": 2400,
    "rule": "engine c03: single-handle histories (quick 6-17 calls, thorough 8-25) over a fault-injecting wrapper of the public "
            "InMemoryStorage that counts every Storage / StorageFile call; after a fault-free run, the history is re-run once "
            "for EVERY storage call index x {fail before its effect, fail after it} (single faults) and for sampled ordered "
            "pairs (quick n/2 pairs, thorough 4n); after every API call: result, contents through a new reader of the running "
            "index, contents through Index::open_with_storage on the same storage; finally a healthy writer commits and both "
            "views are compared. Coq decides (a) correspondence: for at most one fault the run is a history of the whole-history "
            "fault model C03/History.v (corr_h: the set of model states explaining the observations so far is carried along, "
            "every candidate fault assignment of the faulted call's kind is tried, final running/reopened contents equal the "
            "model's); for two faults every faulted commit's outcome is one the commit-under-faults model produces; (b) the "
            "executable specification (possibility-set tracking). A run is non-trivial when a fault fired; "
            "distinct = distinct (history, fault plan)",
    "trusted_base": [
        "the fault-injecting storage wrapper harness/src/faulty.rs (fails a call before or after delegating to InMemoryStorage)",
        "C03/Model.v commit_f and C03/Others.v add_f / rollback_f / compact_f are hand transcriptions of the ?/if-let-Err "
        "structure of IndexWriter::commit / add_document / delete_documents / rollback and Index::compact; C03/History.v "
        "composes them; the tie checks on every run that real faulted runs are histories of that model",
    ],
    "assumptions": ["one live writer handle at a time; in-memory storage (the public Storage trait is the fault surface)"],
}


def run(ctx):
    return vlib.standard_check(ctx, SPEC)


MANIFEST_ENTRY = {
    "text": "Proof (Coq, closed; finite sweep over all 3^8 fault assignments lifted by forallb_forall): C03_single_fault - with "
            "at most one failing storage call (before or after its effect) anywhere in a commit, the commit returns an error "
            "with running and stored contents unchanged and the queue kept, or success with both showing the new state, and the "
            "stored manifest never refers to a missing segment; C03_any_faults_openable - for any number of failing calls the "
            "stored manifest never refers to missing files; C03_add_fault_safe / C03_rollback_fault_safe / "
            "C03_compact_faults_openable / C03_compact_ok_complete - the same for add/delete, rollback and compaction (small "
            "models of their ?-structure; compaction may leave memory and storage on different but content-equal segment lists, "
            "both referring to existing files); whole histories - C03_history_single_fault: every history of the composed model "
            "C03/History.v (any sequence of writer/add/delete/commit/rollback/drop/compact/reopen calls) in which at most one "
            "storage call fails, whichever and wherever, is accepted by the specification C03.Model.spec written from the "
            "statement (error => contents unchanged for new readers and after reopen, operations retryable; success => effects "
            "fully applied; final healthy commit applies the outstanding operations), with C03_call_refines_spec as its one-call "
            "step; C03_unfixed_* show the two defects of the code as found (repaired). The tie evaluates model membership and "
            "the specification on real runs with every single fault position and sampled double faults.",
    "note": "Trusted: Coq kernel; the commit-path model; the fault-injecting wrapper. Partial: the models speak "
            "of storage-touching steps, not of individual Storage calls (several calls map to one step); double faults are "
            "proved only for the second sentence (openable, no missing files) and only for commit and compaction.",
    "technique": "Coq proofs: exhaustive finite sweeps over per-call fault models lifted to all assignments, and a whole-history theorem (composed fault model refines the possibility-set specification); correspondence = real runs under exhaustive single-fault enumeration accepted by the model, evaluated in Coq",
}
