import vlib

SPEC = {
    "props_module": "C23",
    "model_vo": "theories/C23/Model.vo",
    "bin": "c23",
    "n": {"quick": 400, "thorough": 4000},
    "crash_is_violation": True,
    "rule": "engine c23: per case one fresh searchlite-http server started through searchlite_http::run(ServeArgs) on a "
            "loopback port with a fresh index; a random sequence of 8-30 raw HTTP/1.1 requests over std TcpStream: /add "
            "(NDJSON with valid documents, blank lines, unparsable lines, non-object lines, documents failing schema "
            "validation placed mostly behind valid ones), /bulk (valid, unparsable body, wrong content type, empty docs, "
            "non-object element, invalid document), /delete (valid, unparsable, empty, invalid ids), /commit (each followed "
            "by /search), /search, /refresh, /compact; ids from 5 values, every valid document carries a fresh version "
            "number; observation = status + body kind per request, /search answers as the sorted (id, version) list; a case "
            "is non-trivial when a write was rejected inside the writer loop (add_failed) while acknowledged operations of "
            "earlier requests were still uncommitted and a /commit followed; distinct = distinct sequences",
    "trusted_base": [
        "model C23/Model.v: hand transcription of add_ndjson, bulk_ingest, delete_documents, commit, refresh, compact, "
        "search and of IndexWriter::{new (log replay), add_document, delete_documents, savepoint, rollback_to, commit} as "
        "a sequential queue machine (requests are serialized by AppState.writer_lock; concurrency is C05's subject)",
        "request classes (valid / blank / unparsable / non-object / fails validation / bad id) are assigned by the engine's "
        "generator; a wrong classification shows up as a correspondence mismatch",
        "I/O errors of the log (disk full) are not modelled",
    ],
    "assumptions": [
        "requests are sequential (one connection at a time)",
        "the index is initialised (/init) before the sequence; document ids d0..d5, stored i64 field n = version",
    ],
}


def run(ctx):
    return vlib.standard_check(ctx, SPEC)


MANIFEST_ENTRY = {
    "text": "Proof (Coq): in the queue machine transcribed from the HTTP handlers and IndexWriter, for every request "
            "sequence the committed contents are exactly the operations acknowledged with 200 {queued} up to the last "
            "/commit, applied in order, and the shared log holds exactly those acknowledged since, regardless of rejected "
            "requests in between (C23_ack_preserved); a rejected request leaves contents and queue unchanged, so it queues "
            "none of its own documents (C23_reject_queues_nothing); the answers satisfy the executable statement at every "
            "/search (C23_model_meets_spec); the pre-fix handlers (rollback() = truncate the whole shared log) are refuted "
            "(C23_full_rollback_refuted). Tie: random request sequences against a live server started through "
            "searchlite_http::run; every status, error type, queued count and /search content is compared with the model.",
    "note": "Trusted: Coq kernel; the hand-written model of the handlers and of the writer's log/replay/savepoint; the "
            "engine's classification of generated documents; sequential requests only; log I/O failures not modelled. "
            "Holds on the tree only with the repair `fix: roll back only the failing request's operations in /add and /bulk`.",
    "technique": "Coq proof over a Gallina queue machine of the HTTP write path + differential check against a live server over raw TCP",
}
