import vlib

SPEC = {
    "props_module": "C29",
    "model_vo": "theories/C29/Model.vo",
    "bin": "c29",
    "n": {"quick": 10, "thorough": 100},
    "crash_is_violation": True,
    "rule": "engine c29 (searchlite-core built with the `vectors` feature): per world a schema with 1-2 vector fields "
            "(dimension 1-8, cosine / L2, HNSW m in {2,3,4,6,8,16} and ef_construction, or defaults), 1-4 commits of 1-12 "
            "documents with integer-valued vectors (a quarter missing or null), updates and deletions; the segment layout "
            "and every segment's HNSW graph are read back from the reader; 7 (quick) / 10 (thorough) requests per world: "
            "vector-only with one clause, vector-only bool.should with 2-3 clauses, hybrid text + vector_query (tuple and "
            "object form), hybrid bool{must text, should vectors}, with filter / vector_filter, explicit k, candidate_size, "
            "ef_search, boost, alpha, request-level candidate_size, plus wrong-dimension, bad-alpha and negative-boost "
            "requests and wrong-dimension adds; similarities, blends and nearest neighbours are recomputed inside Coq from "
            "the integer vectors; a search case is non-trivial when it returns hits or is rejected, a graph case when the "
            "segment holds at least two vectors; distinct = distinct case records",
    "trusted_base": [
        "hand-written Gallina model C29/{Hnsw,Model}.v of vectors/{mod,hnsw}.rs and of the vector path of api/reader.rs; "
        "heaps are modelled as duplicate-free lists with extract-max/min (the Scored order is total, so pops are determined)",
        "square roots inside Coq are exact integer square roots scaled by 2^40 (bracketed by squares: qsqrt_spec); f32 "
        "results of the implementation are compared with a relative tolerance of 2^-14",
        "the engine's own evaluation of filter / vector_filter on its copy of the documents and its history of "
        "updates / deletions (tombstones); the text score of a document under the text query of a hybrid request is an "
        "oracle (text-only run of the same request)",
    ],
    "assumptions": [
        "vector components are small integers, so dot products and squared distances are exact in f32",
        "hybrid requests leave the request-level candidate_size unset and segments hold at most 20 documents, so the text "
        "pass's per-segment candidate cut never binds",
        "model-vs-implementation comparison of whole hit lists is skipped for cosine fields when a candidate budget binds "
        "and two different stored vectors score within 2^-10 of each other (f32 rounding may order them either way), and "
        "for cosine segments larger than m; the executable specification is still checked on those cases",
    ],
}


def run(ctx):
    return vlib.standard_check(ctx, SPEC)


MANIFEST_ENTRY = {
    "text": "Proof (Coq) over a Gallina model of the vector plan, candidate collection, hybrid scoring, merge and the "
            "single-layer HNSW graph: every hit of a vector-only (or alpha = 0) request is live, has a vector in a queried "
            "field, passes filter and vector_filter and carries the sum of exact similarity x boost of the clauses that "
            "admitted it (C29_hits_sound); hits are sorted by the blend alpha*text + (1-alpha)*vector averaged over the "
            "clauses (C29_order); a wrong-dimension query is rejected and only vectors of the field's dimension are "
            "accepted at add time (C29_dim_rejected); while a segment holds at most m vectors the graph built by "
            "add_vector is complete (C29_graph_complete) and search returns exactly k nearest neighbours "
            "(C29_exact_small). Hybrid requests with 0 < alpha < 1 return text matches without a vector score "
            "(C29_hybrid_missing_refuted, known finding class 1; C29_hits_sound_hybrid gives what does hold). The tie runs "
            "the real index and checks, case by case inside Coq, the specification (sentences 1-5, similarities "
            "recomputed from the integer vectors) and agreement with the model, including the real HNSW graphs.",
    "note": "Trusted: Coq kernel; the hand-written model; integer square root scaled by 2^40 as the exact similarity "
            "(tolerance 2^-14 against f32); engine-side filter evaluation and update/delete history; text scores of "
            "hybrid requests are an oracle. Pipeline-level exactness under binding candidate budgets is checked by the "
            "tie (excuse rule / model agreement), the theorem C29_exact_small is about the graph search.",
    "technique": "Coq proof over a Gallina model of HNSW + vector/hybrid search, differential check against the real index "
                 "(vectors feature) with similarities recomputed in Coq",
}
