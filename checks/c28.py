import vlib

SPEC = {
    "props_module": "C28",
    "model_vo": "theories/C28/Model.vo",
    "bin": "c28",
    "n": {"quick": 60, "thorough": 600},
    "rule": "engine c28: an index with 1-3 committed segments (with deletions) is copied file by file to a sibling "
            "directory; the original is then kept, modified (extra commit + compaction) or removed; the copy is opened and "
            "driven by 2-6 random operations (search, commit with adds, delete-only commit, compaction); the "
            "cfg(searchlite_verif) trace of FsStorage gives every path touched per step, classified as copy / original / "
            "elsewhere; contents are compared with the expected map after every operation and the original directory is "
            "hashed before and after; distinct = distinct (layout, variant, op list)",
    "trusted_base": [
        "C28/Model.v describes the index only at the level of which (root, leaf) paths each operation uses",
        "the fs-trace hook in storage/mod.rs (paths of FsStorage operations and of the files it hands out)",
    ],
    "assumptions": ["file copies preserve bytes (cp -r semantics); symlinks and hard links are not generated"],
}


def run(ctx):
    return vlib.standard_check(ctx, SPEC)


MANIFEST_ENTRY = {
    "text": "Proof (Coq, closed): C28_self_contained - for every stored manifest (segment paths naming any roots), every "
            "opened root r and every sequence of searches, commits, delete-only commits and compactions, every path the "
            "modelled index reads, writes, renames or unlinks lies under r, because open rebases stored paths by file name; "
            "C28_verbatim_refuted shows the pre-fix behaviour violates it (repaired in /repo by a fix: commit). The tie runs "
            "real copied indexes with the original kept/modified/removed and checks, from the fs-trace hook, that no path "
            "outside the copy is touched, results equal the expected contents, and the original's bytes are unchanged.",
    "note": "Trusted: Coq kernel; the path-level model; the trace hook; equality of results is established by the tie (a test) "
            "against an expected-contents map, the theorem covers the 'touches nothing outside' half.",
    "technique": "Coq invariant proof over a path-level model + traced differential runs on copied index directories",
}
