import vlib

SPEC = {
    "props_module": "C21",
    "model_vo": "theories/C21/Model.vo",
    "bin": "c21",
    "n": {"quick": 800, "thorough": 6000},
    "rule": "engine c21: (A) direct calls of the real highlight_fragments / make_snippet on random Unicode texts (ASCII, "
            "Latin-1, CJK, emoji and ZWJ sequences, multi-byte padding before the match), terms taken from the text, "
            "phrases, fragment sizes concentrated around 2*|term| (window barely containing the match), counts 0..5, ten "
            "tag pairs incl. empty, multi-byte and tags that occur in the text; (B) the same through IndexReader::search "
            "(highlight.fields.* and highlight_field) on a two-segment index, observation = Hit.highlights / Hit.snippet, "
            "kernel arguments recovered by the cfg trace hook.  The regex positions (find_at loop, matches inside every "
            "window) are replayed by the engine as the model's oracle.  A case is non-trivial when at least one fragment "
            "was returned; distinct = distinct (text, terms, phrases, options, observation).",
    "trusted_base": [
        "model C21/Model.v: window arithmetic, char-boundary snapping, slicing, tag insertion and the number_of_fragments "
        "cut are modelled; the regex crate is an oracle (its match positions are case data replayed by the engine with "
        "the highlighter's pattern rebuilt in harness/src/bin/c21.rs)",
        "hook searchlite_core::verif::highlight::verif_trace (records highlight_fragments arguments) and the re-export of "
        "the regex crate, both under cfg(searchlite_verif)",
    ],
    "assumptions": [
        "regex matches in a &str are non-empty (every pattern contains a literal), inside the text and on char boundaries; "
        "matches inside a fragment are ordered and disjoint (premise wf of C21_wellformed; checked on every case)",
        "A1: a window containing the match it was built around contains at least one match of the same regex; true when "
        "every term starts and ends with a \\w character, false otherwise (known-finding class 1)",
        "fragment size and lengths are measured in UTF-8 bytes (the code's unit); a bound in bytes implies the bound in characters",
        "'tags removed' is read existentially (some set of inserted tag pairs); the executable scan is exact only when the "
        "first byte of each tag does not occur in the text, otherwise a failing scan is not reported as a violation",
    ],
}


def run(ctx):
    return vlib.standard_check(ctx, SPEC)


MANIFEST_ENTRY = {
    "text": "Proof (Coq) over a byte-level model of the repaired highlight_fragments/make_snippet with the regex as an "
            "oracle: C21_wellformed (every fragment non-empty, >= 1 tagged match, tags removed gives a substring of the "
            "text of at most fragment_size bytes, at most number_of_fragments fragments, for any text when size >= 2*|match| "
            "and the regex re-finds a match in a window containing one), C21_window (the snapped window contains the match, "
            "is on char boundaries, spans <= size bytes), C21_count, C21_model_meets_spec, and C21_unsnapped_window_refuted "
            "(the pre-fix byte-offset window yields an empty fragment). Tied to the code by running the real kernel and the "
            "public search API on random Unicode text and comparing every fragment byte for byte with the model.",
    "note": "Trusted: Coq kernel; the hand-written model; the regex oracle replay in the engine; assumption A1 about \\b at "
            "fragment edges (fails for terms with a non-\\w first/last character: known finding class 1). Sizes are bytes. "
            "Requires fix commit 'snap highlight fragment window to char boundaries'.",
    "technique": "Coq proof over a Gallina model (UTF-8 bytes, regex oracle) + byte-exact differential check against "
                 "highlight_fragments, make_snippet and IndexReader::search highlights",
}
