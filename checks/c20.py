import vlib

SPEC = {
    "props_module": "C20",
    "model_vo": "theories/C20/Model.vo",
    "bin": "c20",
    "n": {"quick": 40, "thorough": 120},
    "rule": "engine c20: n worlds as in c10 (two text fields, sortable single-/multi-valued fast fields with missing values, "
            "1-4 segments, repeated batches, tombstones); per world 6 (quick) / 10 (thorough) requests: a random scored "
            "query tree (term / query_string / multi_match / bool / dis_max / constant_score / function_score), optional "
            "root filter, sort plan of 0-3 keys, limit 1-6, optional candidate_size, execution bm25/wand (bmw off the "
            "score fast path), and with some probability a rescore section (window 1-12, all score modes; more often off the score fast path), a collapse on "
            "tag (with inner hits), bucket/metric aggregations or a terms + top_hits aggregation (forces scoring), a "
            "cursor (page 2 of the flag-free walk). Every request runs through the real IndexReader::search under the "
            "four explain/profile combinations. Coq checks (C20/Model.check_case): ids and order, f32 score bits "
            "(bit-exact), total_hits_estimate, next_cursor, aggregations JSON, total_groups (and, with the scores, the inner-hit ids of a collapse) equal across "
            "the four responses; with explain every hit carries an explanation whose final_score bits equal the hit's "
            "score bits; for plain requests (no rescore / collapse / cursor) the hits of every combination equal, "
            "bit-exactly, the model's ranked list built from the candidates (sort values read from the segments, real "
            "scores from one exhaustive score-ordered request) with the combination's score mode. Non-trivial = at "
            "least two matching documents.",
    "trusted_base": [
        "C20/Model.v: transcription of the flag-dependent parts of reader.rs (score mode, the three gathering shapes, the "
        "truncation of the explain sort path, the explanation-completion loop); everything after hits.sort_by is an "
        "arbitrary function `post` of the sorted candidates, the aggregation pipeline an arbitrary function of the "
        "accepted candidates — that these parts of the code do not read the flags is the modelling assumption the tie "
        "tests (rescore / collapse / cursor / aggregation requests under the four combinations)",
        "C10/Model.v key layer (sort key order) and its proofs",
        "the engine (harness/src/bin/c20.rs, sortworld.rs): request rendering, segment reading, interning of cursors and "
        "aggregation JSON",
    ],
    "assumptions": [
        "distinct matching documents have distinct (segment ordinal, document number)",
        "profile output itself (counters, timings) is not compared: it is additional data, present iff requested "
        "(asserted by the engine)",
        "scores are compared bit-exactly across the flag combinations: the hook path (evaluate_compiled_score) and the "
        "plain path (ScorePlan::evaluate) perform the same f32 operations in the same order for the generated queries",
    ],
}


def run(ctx):
    return vlib.standard_check(ctx, SPEC)


MANIFEST_ENTRY = {
    "text": "Proof (Coq): for every request, candidate set and every pair of flag settings that put the executor in the same "
            "score mode the whole response (hits, order, scores, cursor, groups = any function of the sorted candidate "
            "list; total; aggregations = any function of the accepted candidates) is identical (C20_flags_neutral) — the "
            "per-segment top_k, the bounded heap and the rank-all-then-cut of the explain path yield one list by the "
            "top-k merge lemma (Base/OrdSort.topk_concat, push_fold_topk); hence profile never matters "
            "(C20_profile_neutral) and explain never matters outside known class 1 (C20_explain_neutral_outside_class1); "
            "inside class 1 documents, order, sort values, total and score-blind aggregations are still identical "
            "(C20_class1_only_scores) but the scores are not (C20_class1_scores_refuted); without the cut of the explain "
            "path the candidate lists differed (C20_uncut_explain_path_refuted, repaired); every explanation's final "
            "score equals its hit's score (C20_explanation_final). The tie carries 'the code after the sort does not "
            "read the flags' and bit-equality of scores between the hook and the plain scoring path.",
    "note": "Trusted: Coq kernel; transcription of reader.rs' flag-dependent parts; the engine. Known class 1: explain "
            "turns a match-only execution into a scoring one (hit.score 0.0 -> real score).",
    "technique": "Coq proof over a Gallina model of the explain/profile branches (on the C10 key model), tied by running "
                 "every generated request under the four flag combinations through the real IndexReader::search",
}
