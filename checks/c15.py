import vlib

SPEC = {
    "props_module": "C15",
    "model_vo": "theories/C15/Model.vo",
    "bin": "c15",
    "n": {"quick": 8, "thorough": 40},
    "crash_is_violation": True,
    "rule": "engine c15: world 0 is the defect report's schema with hand-written valid / invalid documents and one "
            "document whose stored form exceeds the docstore limit; every other world is a random schema (text / keyword "
            "/ i64 / f64 fields, nested objects to three levels, optionally a vector field) with 60 (thorough 120) "
            "documents: a valid document with 0, 1 or 2 mutations (unknown fields, junk values, nulls, arrays of arrays, "
            "junk pushed into arrays, removed nested properties, bad ids, malformed vectors, swapped numeric flavour); "
            "per document the real add_document, the following commit, and a further add of a known-good document + "
            "commit are run on one writer (rollback after a failed commit); a case is non-trivial when the document is "
            "rejected or its commit fails; distinct = distinct (world, document, outcome)",
    "trusted_base": [
        "model C15/Model.v: validation and commit-time collection over the shape of JSON values (blank / non-blank "
        "strings, i64 / other numbers); leaf, nested and vector field names of one level form one name space; dotted "
        "top-level keys (flattened nested paths) are not modelled",
        "the stored-size limit enters the model as a flag set by the engine for the one oversize document it builds",
    ],
    "assumptions": [
        "commit failures from the environment (I/O errors, full disk) are out of scope: the engine runs on tmpfs",
        "schemas are accepted by validate_config and have distinct field names per level",
    ],
}


def run(ctx):
    return vlib.standard_check(ctx, SPEC)


MANIFEST_ENTRY = {
    "text": "Proof (Coq): for every schema and document, if the transcription of add_document's validation accepts the "
            "document then the transcription of the commit-time collection (collect_document, collect_nested, "
            "collect_nested_object, vector values) succeeds, i.e. the commit cannot fail on the content of a queued "
            "document (C15_accept_implies_commit) - outside known class 1, a stored form above the 32 MiB docstore "
            "limit, which only the commit notices (C15_accept_implies_commit_refuted); validation accepts exactly the "
            "documents that conform to the schema, so documents with a missing or blank id, wrong value types, unknown "
            "fields, malformed or missing required nested values are rejected when queued (C15_accept_iff_conforms, "
            "C15_rejects_bad). That one rejected or failing document does not block later commits is carried by the tie: "
            "after every document a known-good document is added and committed on the same writer.",
    "note": "Trusted: Coq kernel; the hand-written model of validate_document / NestedField::validate / validate_value / "
            "collect_document / collect_nested / collect_nested_object after the two fixes; the Rust engine (mutation "
            "generator, shape abstraction of JSON values); environment failures of commit are out of scope.",
    "technique": "Coq proof (add-time validation implies commit-time collection; validation = schema conformance) + "
                 "differential check of (add, commit, later commit) outcomes on mutated documents",
}
