import vlib

SPEC = {
    "props_module": "C02",
    "model_vo": "theories/C02/Model.vo",
    "check_fn": "C02.History.check_case_t",
    "bin": "c02",
    "n": {"quick": 200, "thorough": 2500},
    "rule": "engine c02: histories (quick 8-29 calls, thorough 15-59) with one writer handle alive at a time on the real "
            "FsStorage with the fs-trace hook on, and 1-3 crashes each: a crash picks a state-changing operation boundary of "
            "the call in flight (or the point right after it returned) and one crash image of the shadow file system (any "
            "subset of pending directory operations, durable or volatile contents, torn and zero-filled unsynced log tails at "
            "random bytes); the image becomes the live directory, the index is reopened, a new writer's recovered queue is "
            "read through the verif_pending hook and the history goes on (further appends, commits, rollbacks, crashes); at the "
            "end a healthy writer commits. Coq decides for the event list (a) correspondence: it is a history of the whole-history "
            "model C02/History.v (C02.History.corr_case: every call well-formed, every crash observation among the model's "
            "outcomes at some micro-operation boundary consistent with the observed 'whole call ran' / 'log sync completed' "
            "flags, final contents equal; C02.History.traces_run: the operations every completed call performs on wal.log - "
            "append, fsync, truncate, cut - are, in order, the micro-operations of the model for that call, so a dropped or "
            "reordered log sync breaks the correspondence whether or not a crash lands in the window) and (b) the executable specification C02.Model.spec: queue bounds at every crash, "
            "allowed contents, final contents. Every case contains at least one crash; distinct = distinct event lists",
    "trusted_base": [
        "file-system rules of DESIGN.md 3.3 as implemented by harness/src/crashfs.rs (no real crash happens)",
        "the byte-level log model Wal/Model.v (tied to the real Wal::append_*/replay by the c02codec engine of C17's worker) "
        "and the record-level log model in C02/Model.v",
        "the specification treats histories with one live writer handle at a time (multi-handle queues are C04/C05)",
    ],
    "assumptions": [
        "document payloads are valid JSON documents of the schema (undecodable records are C17's subject)",
    ],
}


def run(ctx):
    return vlib.standard_check(ctx, SPEC)


MANIFEST_ENTRY = {
    "text": "Proof (Coq, closed): byte level - a torn or zero-filled log tail never parses as a record and cutting the log at "
            "the reported valid length makes later appends visible (C02_replay_torn_tail, C02_replay_zero_fill, "
            "C02_truncate_then_append); record level - whatever a crash leaves of the log, the recovered queue is the synced "
            "queue followed by a prefix of the unsynced operations in order, a synced queue is recovered exactly, the log's "
            "directory entry is durable from the first writer on (C02_crash_queue_bounds, C02_synced_never_lost, "
            "C02_log_entry_durable); contents level - re-applying an already committed batch in front of new operations "
            "changes nothing (C02_reapply_harmless); protocol level - at every operation boundary of a commit every combination "
            "of recoverable contents and recoverable queue is 'old contents + queue between synced and whole batch' or 'new "
            "contents + empty queue or the whole batch' (C02_commit_windows, over C01's crash-aware disk and the log jointly); "
            "whole histories - C02/History.v models the single-handle writer protocol as micro-operations on the log and an "
            "index with a pending-switch window, a crash at any micro-operation boundary with any outcome of both sides, and "
            "C02_history_meets_spec / C02_history_simulation prove by a simulation invariant that every history of the model, "
            "of any length with any number of crashes, satisfies the executable specification C02.Model.spec written from the "
            "statement (queue between synced and issued operations in order, commit windows, final contents with outstanding "
            "operations applied once). The tie evaluates both the model-membership test and the specification on real crash "
            "runs. Three genuine defects were found and repaired (unsynced log directory entry, torn tail followed by appends, "
            "and C01's rename).",
    "note": "Trusted: Coq kernel; the crash rules and their Rust implementation; hooks (fs trace, verif_pending). Partial: the "
            "whole-history model takes the manifest switch as a two-step window (justified by C01's theorems, not re-derived "
            "from the file-level disk model inside the history theorem) and covers one live handle at a time; the post-crash "
            "log is abstracted to the recovered queue (lemma pending_map_ROp).",
    "technique": "Coq proofs: log codec, crash semantics of the log file, commit windows, and a whole-history simulation theorem (model refines the executable specification); correspondence = real multi-crash histories accepted by the model, evaluated in Coq",
}
