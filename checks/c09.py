import vlib

SPEC = {
    "props_module": "C09",
    "model_vo": "theories/C09/Model.vo",
    "bin": "c09",
    "n": {"quick": 24, "thorough": 150},
    "rule": "engine c09: n worlds of 1-2 segments with 100-600 (thorough: up to 2000) documents each over an 8-word "
            "vocabulary with skewed frequencies (posting lists of the frequent words span hundreds of postings = many "
            "blocks), varied tf and document length, tombstones; per world 6 (quick) / 10 (thorough) scored query trees "
            "with 1-6 terms: query strings, bool should/must with term boosts, dis_max with tie_breaker 0/0.3/1, "
            "function_score (weight / field_value_factor, all boost modes), script_score (5 scripts), rank_feature, "
            "constant_score clauses; limit 1..50, bmw_block_size absent / 1..8 / 1..300, default or explicit _score sort. "
            "Every request runs under execution = bm25, wand and bmw on the real IndexReader::search, for the first page "
            "and for the page after bm25's next_cursor. A third of those requests are block-max stress requests (blocks of 1-3 "
            "postings, 2-3 plain terms). Every third world is small (2-3 tiny segments, cloned batches, 5-word vocabulary): "
            "there 40 two-word requests with limit 1..4 and blocks 1..3 are walked to the end with bm25's cursors under all "
            "three strategies, one case per walk (this is the shape that exposed the block-max pivot defect). Comparison inside Coq (C09.Model.spec): same length, scores within "
            "1e-6 relative (absolute 1e-6), the same document at every position up to permutation of documents whose "
            "scores tie within the tolerance (at the cut: a document whose exhaustive score ties with the last score). "
            "Non-trivial = more matches than limit+1 (pruning can act).",
    "trusted_base": [
        "C09/Wand.v models the pivot loop over integer contributions; the correspondence of that model to wand.rs is by "
        "reading (stated abstractions at the top of the file) — the tie compares the implementation's strategies with each "
        "other, not with the model",
        "bounds_valid for BM25 (upper_bound_tf / block_upper_bound dominate score_tf: monotone in tf, anti-monotone in "
        "doc_len) is assumed by the theorem (wf_term) and exercised by the tie, not proved",
        "float rounding: the strategies add the same contributions in different orders; 1e-6 relative tolerance",
    ],
    "assumptions": [
        "score plans are sums of non-negative leaf contributions bounded by the sum of term bounds (Leaf/Sum/DisMax with "
        "tie_breaker <= 1); score-modifying nodes are not pruned at all after the repair (every document is visited)",
    ],
}


def run(ctx):
    return vlib.standard_check(ctx, SPEC)


MANIFEST_ENTRY = {
    "text": "Proof (Coq): for every posting structure with valid bounds (contribution <= block bound, <= term bound), "
            "every k > 0, acceptance predicate and both strategies, the modelled WAND / block-max WAND loop terminates and "
            "returns exactly brute force's top-k (C09_wand_eq_brute), by the invariant that a full heap absorbs documents "
            "not better than its worst entry (C09_topk_absorbs); the loop as found (block bounds for pivot selection) and "
            "pruning with bounds that do not bound an adjusted score are refuted by witnesses (C09_block_pivot_refuted, "
            "C09_adjusted_refuted); both defects were confirmed on the implementation and repaired in /repo. 'Same scores' "
            "(float), dis_max/boost score plans and the score-modifying query types are carried by the tie: bm25 vs wand vs "
            "bmw on the real engine, first pages and pages after a cursor.",
    "note": "Trusted: Coq kernel; the reading of wand.rs into C09/Wand.v; validity of the BM25 bounds; the Rust engine; "
            "tolerance 1e-6 relative for scores.",
    "technique": "Coq proof of WAND/BMW soundness over a Gallina model of the pivot loop + differential execution of the three "
                 "strategies on the implementation",
}
