import vlib

SPEC = {
    "props_module": "C13",
    "model_vo": "theories/C13/Model.vo",
    "bin": "c13",
    "n": {"quick": 36, "thorough": 300},
    "rule": "engine c13: n worlds = (random corpus of 10..60 documents with text / keyword / i64 / f64 single and multi-valued "
            "fields committed in 1..4 segments with deletions, a query of 9 shapes incl. match_all / multi-term / bool / prefix / "
            "function_score / constant_score, an optional root filter, an aggregation tree of depth <= 2 over terms / range / "
            "histogram / filter / stats / extended_stats / value_count / cardinality / percentiles / percentile_ranks / top_hits, "
            "an optional completion suggester). Each world is evaluated by the real IndexReader::search under the baseline and "
            ">= 6 variations: random sort (7 plans) x execution (bm25 / wand / bmw with block sizes) x explain x profile x rescore x "
            "return_hits x limit x candidate_size, every page of 2-3 cursor walks with limit 1..3, and degenerate requests "
            "(limit 0, cursor with return_hits=false). Observed per variation: the document ids streamed to the aggregation "
            "collector (hook verif::agg_trace), total_hits_estimate, hits.len(), next_cursor, and whether the aggregation / suggest "
            "JSON equals the baseline's (numbers at 1e-6 relative for scores). A case is non-trivial when the variation differs "
            "from the baseline in a paging parameter, aggregations are requested, the matched set is non-empty and the response is "
            "not an error; distinct = distinct (world, variation)",
    "trusted_base": [
        "model C13/Model.v: candidate enumeration, query matching, root-filter evaluation and sort-key order are oracles; the tie "
        "instantiates them per document from unpaged reference runs of the implementation itself (no aggregations, limit > "
        "corpus size) - so the check is about paging-independence, not about query semantics",
        "the aggregation collectors, merge and finalisation are an abstract order-insensitive fold in the theorems (C12 models them); "
        "the tie compares their JSON output across variations",
        "hook verif::agg_trace (cfg(searchlite_verif)) records what SegmentAggregationCollector::collect receives",
        "vector / hybrid queries are not modelled or generated (search_vector_only received the same repair)",
    ],
    "assumptions": [
        "scores of a document do not depend on limit, cursor or candidate_size (cursor walks are generated only for queries with "
        "<= 2 scored terms, where f32 summation order cannot change a score)",
        "the hits of the rank run (same sort and execution, limit > corpus size) are in SortKey order",
    ],
}


def run(ctx):
    return vlib.standard_check(ctx, SPEC)


MANIFEST_ENTRY = {
    "text": "Proof (Coq, unbounded, all oracles universally quantified): in the model of the accept pipeline (executor offers "
            "candidates -> deleted / query / filter tests -> aggregation collector -> cursor test -> counter and ranking) the "
            "per-segment input of the aggregation collectors of a successful request is a permutation of the live documents "
            "matching query and filter (C13_collector_input_exact) and is therefore the same for any two requests with the same "
            "query, filter and aggregations whatever their cursor, limit, candidate_size, sort, return_hits, execution, explain, "
            "profile and rescore (C13_collector_input_invariant; uses: an attached collector disables WAND/BMW pruning); for an "
            "order-insensitive collector fold the merged aggregations are equal (C13_aggs_invariant, with the premise that the "
            "collector does not distinguish the scores handed over by the two requests - false only for top_hits across score "
            "modes, known finding class 1); suggestions depend on the suggest request only (C13_suggest_invariant). "
            "C13_collector_after_cursor_refuted shows the pre-repair order (collector after the cursor test) violating the "
            "property. Sentence 'identical on every page of a cursor walk and for any limit, sort ...' for the final JSON is carried "
            "by the tie: every variation's aggregation and suggest JSON is compared with the baseline response.",
    "note": "Trusted: Coq kernel; the hand-written pipeline model with matching / filtering / sort keys as oracles instantiated from "
            "reference runs of the implementation; the engine, the cfg(searchlite_verif) trace hook; the abstract collector fold "
            "(commutativity premise). Requires repo commit `fix: aggregations see every matched document, not only those after "
            "the cursor`.",
    "technique": "Coq proof over a Gallina model of the accept pipeline + differential check of collector input, totals and "
                 "aggregation/suggest JSON across paging variations of the real search",
}
