import vlib

SPEC = {
    "props_module": "C14",
    "model_vo": "theories/C14/Model.vo",
    "bin": "c14",
    "n": {"quick": 30, "thorough": 200},
    "crash_is_violation": True,
    "rule": "engine c14: worlds 0-4 are the documents of the defect reports (empty nested objects next to non-empty ones, "
            "a required nested object whose stored form is empty, a required unstored nested property, a vector field, "
            "a fast-only field); every other world is a random schema (text/keyword/i64/f64 leaves with random "
            "stored/indexed/fast/nullable flags, nested objects to three levels; 70% drawn compact-safe, 25% random "
            "flags, 5% with a vector field), a random history of 1-5 (thorough 1-7) commits of adds/upserts and deletes "
            "over 4-13 ids with reopens in between, then Index::compact; observation = result of the call, before and "
            "after (fresh handle): live ids with exact stored JSON, ascending hit ids of 30 (thorough 60) random "
            "And/Or/Not/Nested filters and 30 (thorough 60) random queries (term, phrase with slop 0-3, prefix, bool, "
            "vector), segment and tombstone counts, and whether the directory (names and bytes) is unchanged; a case is "
            "non-trivial when the index had at least two segments at the call",
    "trusted_base": [
        "model C14/Model.v: sp (stored form) and valid are written over the schema (one lookup per declared "
        "property) instead of replaying the HashMap/Map insertions of collect_document/stored_nested_value; object keys "
        "are compared in schema order after the engine sorts them; the docstore/zstd round trip, the segment writer's "
        "file formats and the postings builder are abstracted (the index content of a document is the per-field list "
        "of value strings in collection order + C08's column model); all of this is covered by the tie only",
        "text queries are not evaluated in Coq: the model predicts that their hit lists are unchanged "
        "(C14_reindex_fixpoint/C14_postings: same strings per field, hence same postings for any analyzer) and the tie "
        "compares the real hit lists before and after",
        "a vector field enters Coq as an unstored fast f64 field (data used by queries, never stored)",
        "strings/f64 interning as in C08; the document id is compared through the hit's doc_id and removed from the "
        "stored JSON when equal to it",
    ],
    "assumptions": [
        "schema names are distinct per level (wfl), JSON object keys are distinct, field names contain no '.'",
        "documents are accepted by add_document (valid); filters name only fast fields of the matching type and nested "
        "paths of the schema (well_typed) in the theorems - other filters are compared with the model only",
        "one writer handle at a time, filesystem storage, no I/O faults during compaction",
    ],
}


def run(ctx):
    return vlib.standard_check(ctx, SPEC)


MANIFEST_ENTRY = {
    "text": "Proof (Coq), over a model of Index::compact on a manifest of segments with tombstones, of the stored form "
            "(collect_document/finalize_stored/stored_nested_value), of validation, of ensure_compact_safe and of what "
            "one document contributes to the index: a compaction that goes through keeps the live ids and their stored "
            "fields and leaves one segment without tombstones (C14_contents); an unsafe schema is refused and no "
            "refusal changes the manifest (C14_refuse_unchanged); with a compact-safe schema compaction never fails "
            "(C14_goes_through); re-ingesting the stored form of a valid document gives a valid document with the same "
            "stored form, the same strings in the same order for every indexed text/keyword field, the same fast-field "
            "cells for every column and the same object counts/parent links for every nested path "
            "(C14_reindex_fixpoint), hence the same token postings and positions for any analyzer (C14_postings) and "
            "the same answer for every well-typed filter tree, per document and per hit list (C14_queries, through "
            "C08_filter_exact); the model's observation meets the executable specification (C14_model_meets_spec); the "
            "stored form before the repair is refuted by two witnesses (C14_unfixed_refuted). Extension of C04's 'stored "
            "fields equal to the stored projection': collect_document run as the code does (one pass over the "
            "document's fields, push_stored, nested map, finalize_stored) yields, for every valid document, exactly the "
            "stored projection sp as a map, and sp is idempotent (C04_stored_projection, "
            "C04_stored_projection_idempotent); the tie compares the exact stored "
            "JSON of every live document with sp. 'Which documents any "
            "query matches' is carried by C14_reindex_fixpoint/C14_postings (identical index input per field) plus "
            "the tie's before/after comparison of real term/phrase/prefix/bool/vector queries; 'byte-identical "
            "directory on refusal' and 'old files removed' only by the tie.",
    "note": "Trusted: Coq kernel; the hand-written model (see trusted_base); the Rust engine (generators, interning, "
            "canonical key order, reconstruction of the manifest's source documents from the engine's own fold of each "
            "commit checked against the real segments' doc ids). Three fix: commits in /repo belong to this property "
            "(empty nested objects kept in the stored form; required unstored nested property refused; vector schemas "
            "refused).",
    "technique": "Coq proof (re-ingestion fixpoint of the stored form + compaction over a segment manifest, reusing the "
                 "C08 column/filter model) + differential before/after check of the real Index::compact against model "
                 "and specification",
}
