import vlib

SPEC = {
    "props_module": "C04",
    "model_vo": "theories/C04/Model.vo",
    "bin": "c04",
    "n": {"quick": 100, "thorough": 1200},
    "rule": "engine c04: random histories (quick 10-60 calls, thorough 20-300) of NewWriter/Add/Delete/Commit/Rollback/"
            "DropWriter/Compact/Reopen over ids a..f and handles 1..3 on the real Index (2/3 filesystem with up to 3 "
            "simultaneously live handles, 1/3 in-memory storage with one live handle at a time); after every call a fresh "
            "reader's match_all contents (id, stored version; sorted, duplicates kept) are recorded; Coq evaluates the "
            "concrete machine (Core.Model.step) and the specification machine (sstep) on the same history and compares "
            "all three after every call; a history is non-trivial when it has at least two commits; distinct = distinct histories",
    "trusted_base": [
        "Core/Model.v is a hand transcription of IndexWriter::{new,add_document,delete_documents,commit,rollback,drop}, "
        "Index::{compact,open}, load_live_docs; segment files, postings and the docstore are abstracted to (id, version) "
        "lists; storage never fails and the process never crashes in this property (C01-C03 cover those)",
        "documents are (id, version): the stored projection of richer documents is not modelled here",
    ],
    "assumptions": [
        "interning of document ids preserves their string order (ids are the single letters a..f)",
        "in-memory storage histories keep one live writer handle at a time: the in-memory log file keeps a private write "
        "position per handle, which the shared-append model does not describe (see DESIGN.md C04)",
    ],
}


def run(ctx):
    return vlib.standard_check(ctx, SPEC)


MANIFEST_ENTRY = {
    "text": "Proof (Coq, closed under the global context): C04_refines - for every history of add/delete/commit/rollback/"
            "compact/reopen calls over any number of writer handles that contains no stale commit, after every call the "
            "concrete machine (segments, tombstones, per-handle live-document cache with the generation test, BTreeMap "
            "ordering of new segments, compaction) shows a fresh reader exactly one copy per id and the same id->version map "
            "as the user-level specification (upsert/delete fold; queued operations invisible; rollback discards) - by a "
            "simulation invariant over unboundedly long histories. C04_invisible_until_commit and C04_rollback_discards carry "
            "the second sentence. C04_stale_refuted exhibits the known finding (class 1) on which the statement fails. "
            "The model is tied to the code by replaying random multi-handle histories on the real index and comparing the "
            "reader's contents after every call with both machines. Stored-field projection equality is checked only as "
            "'the stored version field matches' (tie, not theorem).",
    "note": "Trusted: Coq kernel; hand-written model Core/Model.v (abstracts segment files to (id,version) lists); the Rust "
            "engine; least-demanding reading of 'last committed operation' documented in Core/Model.v (spec section).",
    "technique": "Coq refinement proof (simulation invariant, induction over histories) + differential replay of histories on the real index",
}
