import vlib

SPEC = {
    "props_module": "C01",
    "model_vo": "theories/C01/Model.vo",
    "bin": "c01",
    "n": {"quick": 40, "thorough": 200},
    "engine_timeout": 2400,
    "rule": "engine c01: random histories (quick 6-19 calls, thorough 10-49) of NewWriter/Add/Delete/Commit/Rollback/Drop/"
            "Compact/Reopen over 1-2 writer handles on the real FsStorage with the fs-trace hook on; the trace is replayed "
            "into a shadow file system that separates volatile from fsynced file contents and durable from pending "
            "directory entries; at every state-changing operation boundary crash images are built (every subset of the "
            "pending directory operations when <= 4, otherwise none/all/prefixes/all-but-one; durable or volatile contents; "
            "torn and zero-filled unsynced log tails), written to a fresh directory and reopened with the real "
            "Index::open + reader + match_all; Coq compares the abstracted real trace with the model's trace, the "
            "crash-free contents with the model's, and every recovered result with the model's set of possible outcomes "
            "and with the specification (before/after contents). A history is non-trivial when it contains a commit or "
            "compaction; distinct = distinct histories",
    "trusted_base": [
        "file-system rules (DESIGN.md 3.3): fsync makes one file's content durable; create/rename/unlink are pending until "
        "the directory fsync and any subset of them may survive a crash; unsynced content may be lost or torn; the real "
        "kernel/file system is not exercised (no real crash) - images are constructed by harness/src/crashfs.rs",
        "C01/Model.v abstracts the five files of a segment to one object that is good only when all are fsynced and "
        "entered; MANIFEST.json content is a manifest value (its JSON encoding is serde's)",
        "the abstraction of the real trace to the model's alphabet (harness/src/bin/c01.rs, Abstractor)",
    ],
    "assumptions": [
        "single directory per index (no vector fields in the generated schema)",
        "the write-ahead log plays no role for the committed contents seen by a reopen (its recovery is C02)",
    ],
}


def run(ctx):
    return vlib.standard_check(ctx, SPEC)


MANIFEST_ENTRY = {
    "text": "Proof (Coq, closed): C01_atomic - for every history, next call and number of that call's storage operations "
            "already issued, every outcome a reopen can produce after a crash there (any subset of unsynced directory "
            "operations, unsynced contents lost) is the contents before the call or the complete contents after it, never "
            "'does not open'; C01_durable - after the call's last operation only its result is recoverable (acknowledged "
            "commits/compactions are never lost); by an invariant over the durability facts of manifest, temporary file and "
            "segments, induction over unbounded histories. C01_unfixed_refuted: without the directory fsync before the "
            "rename the index can become unopenable (defect repaired in /repo by a fix: commit). Tie: real op order vs the "
            "model's trace, and thousands of crash images per run reopened with the real code.",
    "note": "Trusted: Coq kernel; the file-system crash rules (not the real kernel); the durability-fact model of the "
            "directory; the Rust shadow file system and trace abstraction; the fs-trace hook.",
    "technique": "Coq invariant proof over a crash-aware disk model + traced differential crash-image replay on the real index",
}
