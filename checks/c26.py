import vlib

SPEC = {
    "props_module": "C26",
    "model_vo": "theories/C26/Model.vo",
    "bin": "c26",
    "n": {"quick": 8, "thorough": 24},
    "crash_is_violation": True,
    "rule": "engine c26: a small index opened through searchlite_index_open; random calls (string / JSON queries, "
            "valid and garbage cursors, valid / invalid / cut aggregation JSON); for each call the real searchlite_search "
            "runs with a canary-filled allocation of cap+slack bytes for every capacity 0..|json|+8 (sampled in quick when "
            "the response is long) and with a null pointer in each argument; a case is non-trivial when the response is "
            "truncated (cap <= |json|) with no null argument and no core error; distinct = distinct (call, cap, flags)",
    "trusted_base": [
        "model C26/Model.v covers only the argument guards and the buffer write of searchlite_search; request "
        "construction and the core search are the implementation's (the model takes the full JSON response as input)",
        "dangling non-null pointers and unterminated C strings are UB by contract and not exercised",
    ],
    "assumptions": [
        "the JSON response contains no NUL byte and is the same on repeated calls (asserted by the engine on every call)",
        "writes further than |json|+64 bytes past the caller's buffer would not be seen by the canaries",
    ],
}


def run(ctx):
    return vlib.standard_check(ctx, SPEC)


MANIFEST_ENTRY = {
    "text": "Proof (Coq): for every JSON response, capacity, slack and null-flag combination the modelled tail of "
            "searchlite_search writes at most cap bytes, NUL-terminates, returns the count before the NUL, leaves a prefix of "
            "the response, touches nothing past the buffer, and writes nothing on null/zero-capacity arguments "
            "(C26_within_buffer, C26_null_args, C26_model_meets_spec; closed under the global context). The model is tied to "
            "the code by running the real C entry point on canary-surrounded buffers of every capacity and comparing every "
            "byte of the allocation with the model's output.",
    "note": "Trusted: Coq kernel; the hand-written model of the function tail (request construction and core search are "
            "taken as the implementation's); the Rust engine and canary technique (writes further than |json|+64 bytes past "
            "the buffer are not observed); invalid non-null pointers are UB by contract and not exercised.",
    "technique": "Coq proof over a Gallina model of the FFI buffer write + byte-exact differential check against the real extern fn",
}
