import vlib

SPEC = {
    "props_module": "C07",
    "model_vo": "theories/C07/Model.vo",
    "bin": "c07",
    "n": {"quick": 1500, "thorough": 15000},
    "engine_timeout": 1500,
    "rule": "engine c07: random schema (1-3 text fields over default/whitespace/unicode tokenizers with lowercase, "
            "stopwords, English stemmer and synonym filters, optional different search analyzer; 0-2 fast keyword fields), "
            "corpus of 5-60 documents over 1-4 commits with deletions, upserts, multi-valued and empty values; 60 query trees "
            "per corpus to depth 4 over all node kinds (plus indexed-word probes), optionally with request fuzzy options; each "
            "query runs through the real IndexReader::search with execution bm25, wand, bmw and a field-sorted run, limit > "
            "corpus size; the observation is the four sorted id lists. Non-trivial = no error and the result is neither empty "
            "nor all live documents; distinct = distinct (corpus, query, fuzzy options, result)",
    "trusted_base": [
        "model C07/Model.v: the plan is reduced to the matcher tree with inlined term groups (group/leaf index indirection "
        "of the planner and score expressions are not modelled); candidate generation is the set of ordinals handed to "
        "accept (union of scored postings + residual scan, or full scan), one definition for brute_force / wand_loop / "
        "match_only_loop, which the tie exercises separately",
        "oracles supplied by the engine from the real code: index and search analyzers (Schema::build_analyzers), "
        "Analyzer::normalize_pattern, parse_query (query_string / multi_match text), the regex engine (anchored_regex); "
        "prefix / wildcard / fuzzy predicates are re-implemented in the engine (starts_with, glob, Levenshtein) and the "
        "expanded key sets handed to the model",
        "filter evaluation (KeywordEq/KeywordIn/And/Or/Not over fast keyword values) is shared by model and specification",
        "positions are far below 2^31 (the i32 casts of phrase.rs are modelled in N)",
    ],
    "assumptions": [
        "expansion nodes and fuzzy options stay below their caps (the engine discards queries whose expansion count reaches cap-1)",
        "function_score / script_score / rank_feature are generated without min_score and with finite scores (score-based drops are score semantics)",
        "minimum_should_match percentages are 0/25/50/75/100 (exact in f32)",
        "queries that trip the debug assertion on one term key under two scoring leaves are skipped (C16)",
        "C07_indexed_word_finds_doc assumes analyzer compatibility: the search analyzer maps an indexed word to a key the index analyzer produced for it",
    ],
}


def run(ctx):
    return vlib.standard_check(ctx, SPEC)


MANIFEST_ENTRY = {
    "text": "Proof (Coq): for every corpus (any segmentation, tombstones) and every query tree of unbounded depth, the "
            "modelled evaluator over postings (matches_node, phrase runtimes with merged sorted positions and the slop search "
            "with its early break) agrees with the documented boolean semantics evaluated on the document's analyzed tokens "
            "(C07_matcher_sound_complete); the modelled search (plan + candidate generation incl. the residual scan of the fix "
            "+ evaluator) returns exactly the live documents satisfying the semantics (C07_results_exact); should clauses are "
            "optional beside must/filter (C07_should_optional); an indexed word finds its document under the analyzer "
            "compatibility hypothesis (C07_indexed_word_finds_doc). Tie: random schemas, corpora, histories and query trees run "
            "through the real IndexReader::search in all execution modes and compared with the model and the specification "
            "inside Coq.",
    "note": "Trusted: Coq kernel; hand-written model (term-group index indirection and scoring abstracted); analyzers, "
            "parse_query, regex engine and expansion predicates as oracles; expansion below caps; score-based drops "
            "(min_score, non-finite scores) excluded. One defect repaired in /repo (fix: residual scan for documents without "
            "scored terms).",
    "technique": "Coq proof over a Gallina model of plan/postings/evaluator/candidate generation + differential check of id sets against IndexReader::search",
}
