import vlib

SPEC = {
    "props_module": "C06",
    "model_vo": "theories/C06/Model.vo",
    "bin": "c06",
    # the engine enumerates schedules; --n is not used
    "n": {"quick": 0, "thorough": 0},
    "engine_timeout": 1500,
    "rule": "engine c06: real reader threads (Index::reader(); two match_all searches) against a real mutator thread "
            "(commits and Index::compact through one IndexWriter on FsStorage) under the deterministic scheduler "
            "slv::sched driven through the cfg(searchlite_verif) schedule points. Pause points: reader - before/after "
            "the manifest copy, after every segment open, after open returns, before the second search, after a failed "
            "segment open, before a retry; mutator - after every commit publish, after the compaction publish (manifest "
            "write lock released), after cleanup_segments. quick: ALL interleavings for 1 reader x scripts "
            "{K, CK, KC, AKC} (K = compaction, C/A = commit) x 1-3 initial segments, plus 2 x 120 random schedules with two "
            "readers; thorough adds longer scripts (two compactions), 4 segments and more two-reader schedules. One case = "
            "one schedule: the recorded global event order with the observation of every reader step; Coq elaborates the "
            "writer calls through Core.Model.step into file-created/published/unlinked events, replays the reader model on "
            "that order and must predict every observation (segment open ok/missing, retry, open Ok/Err, search contents); "
            "the independent specification spec1 must accept the observations. A case is non-trivial when the schedule "
            "had a real choice (more than one thread enabled at some step); distinct = distinct (scenario, schedule).",
    "trusted_base": [
        "C06/Model.v is a hand transcription of IndexReader::open (repaired loop), SegmentReader::open at segment "
        "granularity (a segment is opened entirely or the open fails; interleavings inside one segment's file opens "
        "and inside cleanup_segments are not separate model steps), and of the reader-visible steps of commit/compact",
        "file-system rule assumed by the model and exercised by the tie on tmpfs: open handles and fully read copies "
        "are unaffected by unlink",
        "the scheduler serialises threads at the instrumented points only; data races between points and weak-memory "
        "effects are invisible (parking_lot RwLock/Mutex trusted)",
        "manifests in the recorded traces are computed by Core.Model.step (tied to the code by C04/C05), not read back",
    ],
    "assumptions": [
        "writers follow the protocol writers_okb (fresh segment names; publish only manifests whose files exist; unlink "
        "only segments outside the published manifest) - evaluated on every recorded trace as part of the correspondence",
        "termination of the repaired open needs finitely many publishes overlapping it (C06_open_retries_bounded) or a "
        "pause of the writers (C06_open_terminates_when_writers_pause)",
    ],
}


def run(ctx):
    return vlib.standard_check(ctx, SPEC)


MANIFEST_ENTRY = {
    "text": "Proof (Coq, closed under the global context) over arbitrary interleavings of one reader's steps (manifest "
            "copy, segment opens, re-check, open returns, searches) with writer steps (segment files written, manifest "
            "published, segment files removed) and other readers' steps, unbounded length: C06_snapshot_stable - once "
            "open returned, the reader holds exactly the manifest published at its last copy instant and every later "
            "search returns that manifest's contents under ANY later events ('every reader returns results for exactly one "
            "committed state; a reader opened before a change keeps returning the pre-change results'); C06_open_total - "
            "the repaired IndexReader::open never returns an error under any interleaving with protocol-following "
            "writers ('never fails because of them'), with progress made explicit by C06_open_retries_bounded (retries <= "
            "publishes interleaved) and C06_open_terminates_when_writers_pause; C06_model_meets_spec - the executable "
            "specification written from the property text accepts all model behaviours; C06_open_total_unfixed_refuted - "
            "the 4-event witness (copy; compaction publish; unlink; segment open) on which the original open failed "
            "(fixed in /repo). 'Searching never fails' is carried by the model's file-system rule and checked by the tie. "
            "The tie runs real threads under an exhaustive schedule enumeration and Coq replays every recorded schedule.",
    "note": "Trusted: Coq kernel; hand-written model C06/Model.v at segment granularity; the file-system rule (open "
            "handles survive unlink); the scheduler hook (threads are serialised at instrumented points; weak memory out "
            "of scope); Core.Model.step for the published manifests.",
    "technique": "Coq invariant proofs by induction over event sequences + exhaustive deterministic schedule enumeration "
                 "of real threads replayed in Coq",
}
