import os
import re

import vlib


def consts(ctx):
    """The model's constants must be the ones reader.rs has now (each pattern must match exactly once)."""
    src = open(os.path.join(vlib.REPO, "searchlite-core/src/api/reader.rs")).read()
    model = open(os.path.join(vlib.COQ, "theories/C11/Model.v")).read()
    want = {
        "CURSOR_VERSION": (r"const CURSOR_VERSION: u8 = (\d+);", r"Definition CURSOR_VERSION : N := (\d+)\.", 1),
        "CURSOR_BYTES": (r"const CURSOR_BYTES: usize = (\d+);", r"Definition CURSOR_HEX_LEN : nat := (\d+)\.", 2),
        "SORT_CURSOR_VERSION": (r"const SORT_CURSOR_VERSION: u8 = (\d+);", r"Definition SORT_CURSOR_VERSION : N := (\d+)\.", 1),
        "MAX_CURSOR_ADVANCE": (r"const MAX_CURSOR_ADVANCE: usize = ([\d_]+);", r"Definition MAX_CURSOR_ADVANCE : N := (\d+)\.", 1),
    }
    problems = []
    for name, (rs, coq, mul) in want.items():
        a, b = re.findall(rs, src), re.findall(coq, model)
        if len(a) != 1 or len(b) != 1:
            problems.append(f"constant {name}: pattern matched {len(a)} times in reader.rs, {len(b)} times in C11/Model.v")
        elif int(a[0].replace("_", "")) * mul != int(b[0]):
            problems.append(f"constant {name}: reader.rs has {a[0]}, C11/Model.v assumes {b[0]} (x{mul})")
    return problems


SPEC = {
    "props_module": "C11",
    "model_vo": "theories/C11/Model.vo",
    "bin": "c11",
    "gen": consts,
    "n": {"quick": 24, "thorough": 200},
    "rule": "engine c11: n worlds = random corpora (tiny vocabulary and value ranges: many BM25 and sort-value ties; some "
            "commits repeat the previous batch so that scores tie across segments; 1-4 segments, optional tombstones, "
            "filesystem and in-memory storage); per world 5 (quick) / 8 (thorough) request shapes (match_all / term / two-word "
            "queries, optional filter, sort plans over _score / keyword / i64 / f64 fields, single- and multi-valued, with "
            "missing values, 0-3 sort keys, asc/desc, execution wand/bmw/bm25, bmw_block_size 1-4 or default, "
            "candidate_size); every shape is walked with 2 (quick) / 4 (thorough) page sizes from 1..7 through the real "
            "IndexReader::search and compared with one request of limit |docs|+5: ids and f32 score bits must be equal, "
            "position by position (no tolerance). Cursors of the second page are replayed against other sort plans, in "
            "forged and re-spelled forms (upper case, '+'-digit, cut, non-hex, other version / generation / plan hash, "
            "returned > 50000), after a commit that adds a segment and after a compaction. One case = one walk with its "
            "replays; non-trivial = the walk has at least two pages.",
    "trusted_base": [
        "C11/Model.v: keys are abstract (the reader's SortKey order interned to N by rank in the big request); the model "
        "covers cursor filtering, saw_cursor, the per-segment / shared bounded heaps, next_cursor and total_hits_estimate, "
        "not scoring or matching (C07/C09/C10)",
        "v2 (sort) cursors: hex + serde_json layers are trusted; the model starts from the parsed SortCursorState",
        "non-ASCII cursor strings are outside the codec model (panic fixed separately under C16)",
        "the engine's own labelling of replays as 'foreign' (other generation / other sort order)",
    ],
    "assumptions": [
        "distinct matching documents have distinct SortKeys (segment_ord, doc_id tie-break) — asserted per case by the "
        "engine (no id twice in the big request) and by wf (the segments partition the ranks)",
        "walk depth <= MAX_CURSOR_ADVANCE = 50000 returned hits (documented limit; deeper cursors are refused: "
        "C11_deep_cursor_rejected); the tie does not build 50k-document result sets",
        "a delete-only commit keeps the generation number, so an older cursor is still accepted afterwards; the "
        "statement speaks of a different index generation, not exercised as a violation",
    ],
}


def run(ctx):
    return vlib.standard_check(ctx, SPEC)


MANIFEST_ENTRY = {
    "text": "Proof (Coq): for every set of matching keys (strict total order), page size > 0, candidate_size and both "
            "ranking paths, following next_cursor returns every key exactly once in order, ends with a cursor-less page, "
            "all earlier pages full, every page reporting total = number of matches (C11_walk_complete, "
            "C11_walk_terminates; hypothesis: at most MAX_CURSOR_ADVANCE matches, the documented cursor depth), and the "
            "result is the one big request's list (C11_order_is_the_big_request, C11_sort_spec, "
            "C11_per_segment_topk_suffices). Cursor safety: byte-exact v1 round trip and rejection of wrong length / "
            "non-hex / version / returned > limit / other generation (C11_cursor_roundtrip, C11_reject_*), sort cursors "
            "reject another generation or plan hash (C11_reject_foreign), unknown keys are refused "
            "(C11_unknown_cursor_rejected). 'Same scores', 'for every sort plan', total <= matches under pruning and the "
            "JSON layer of sort cursors are carried by the tie only: real walks compared with one big request, bit-exact.",
    "note": "Trusted: Coq kernel; the abstraction of SortKey order to integers; serde/hex layer of v2 cursors; the Rust "
            "engine. Hypotheses: distinct keys; <= 50000 matches per walk.",
    "technique": "Coq proof over a Gallina model of cursor codec + page selection, tied by differential walks of the real "
                 "IndexReader::search",
}
