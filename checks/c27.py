"""C27 - browser persistence survives a reload at any moment.

The engine is NOT the common harness crate: `harness-wasm/` compiles the real
searchlite-wasm/src/wasm.rs for the host against local shim crates (wasm-bindgen, js-sys, web-sys,
wasm-bindgen-futures, serde-wasm-bindgen) that simulate IndexedDB and the task queue.  This file
therefore builds and runs that crate itself and otherwise follows vlib.standard_check."""
import os
import shutil
import types

import vlib

HW = os.path.join(vlib.VERIF, "harness-wasm")
HW_TARGET = os.path.join(vlib.TARGET, "wasm-host")

SPEC = {
    "props_module": "C27",
    "model_vo": "theories/C27/Model.vo",
    "bin": "c27",
    "n": {"quick": 60, "thorough": 600},
    "engine_timeout": 1500,
    "crash_is_violation": True,
    "rule": "engine harness-wasm/c27: the real searchlite-wasm/src/wasm.rs compiled for the host against shim crates "
            "(simulated IndexedDB: put durable only when its read-write transaction completes; harness-controlled task "
            "queue). Scripts init / 1-3 rounds of 1-2 add_document + commit / an empty commit. Schedules: 'eager' = after "
            "every JS call or IndexedDB event the task queue is drained FIFO and the only choice is next JS call vs next "
            "IndexedDB event in creation order - enumerated exhaustively by stateless DFS up to n schedules per script; "
            "'liberal' = random interleavings of FIFO task polls, creation-ordered request/transaction events and JS calls; "
            "'free' = random task and transaction order (non-conformant platform, known class 1). The page is closed after "
            "every completed transaction and after every resolved promise; the durable store is reopened in a fresh "
            "thread with the real Searchlite::init and searched. Coq replays the event list in C27.Model and compares "
            "started/resolved commits, durable keys, durable manifest and served documents at every cut, then evaluates "
            "the specification. Non-trivial = at least one commit and >= 8 cuts; distinct = distinct (schedule, cuts)",
    "trusted_base": [
        "the shim crates under harness-wasm/shims (about 900 lines): same names and signatures as wasm-bindgen 0.2 / "
        "js-sys / web-sys / wasm-bindgen-futures / serde-wasm-bindgen for the items wasm.rs uses, but SIMULATED semantics: "
        "IndexedDB puts become durable exactly when the harness completes their transaction, closing the page discards "
        "every incomplete transaction (the IndexedDB forced-close rule), spawn_local only queues, wakers enqueue FIFO",
        "no wasm32 target, browser or real IndexedDB is exercised; real browsers' durability after 'complete' is assumed",
        "C27/Model.v abstracts file contents: a manifest is its list of segments, a segment file is present or absent, "
        "the log is opaque; it covers init on an empty store, add_document and commit of one session",
        "conformant platform = FIFO task queue (wasm-bindgen-futures) and read-write transactions of one object store "
        "running one at a time in creation order (IndexedDB specification)",
    ],
    "assumptions": [
        "the JS caller awaits init/commit before calling commit again (add_document may be called at any time)",
        "one session starting from an empty database; the reopened page only runs init and a search",
        "documents have distinct ids (no upserts/deletes: the wasm API exposes none)",
    ],
}


def _build(ctx, bins, timeout=2400):
    tmpl = open(os.path.join(HW, "Cargo.toml.in")).read().replace("@REPO@", vlib.REPO)
    ct = os.path.join(HW, "Cargo.toml")
    if not os.path.exists(ct) or open(ct).read() != tmpl:
        open(ct, "w").write(tmpl)
    lock_src = os.path.join(vlib.REPO, "Cargo.lock")
    lock_dst = os.path.join(HW, "Cargo.lock")
    if not os.path.exists(lock_dst):
        shutil.copyfile(lock_src, lock_dst)
    env = {"RUSTFLAGS": f"--cfg {vlib.GUARD}", "CARGO_NET_OFFLINE": "true", "CARGO_TARGET_DIR": HW_TARGET,
           "SLV_REPO": vlib.REPO}
    cmd = ["cargo", "build", "--offline", "--bin", "c27"]
    rc, out, _ = vlib.run(cmd, cwd=HW, timeout=timeout, env=env)
    if rc != 0 and "Cargo.lock" in out and "needs to be updated" in out:
        shutil.copyfile(lock_src, lock_dst)
        rc, out, _ = vlib.run(cmd, cwd=HW, timeout=timeout, env=env)
    return rc == 0, out


def _run(ctx, bin_, args, timeout=1500, env=None):
    exe = os.path.join(HW_TARGET, "debug", "c27")
    return vlib.run([exe] + [str(a) for a in args], cwd=ctx.work, timeout=timeout, env=env)


def _realcheck(ctx):
    """thorough tier: the same wasm.rs must type-check against the real browser crates (host target)."""
    if ctx.tier != "thorough":
        ctx.notes.append("real-crate type check of wasm.rs (harness-wasm/realcheck) runs in the thorough tier only")
        return []
    d = os.path.join(HW, "realcheck")
    tmpl = open(os.path.join(d, "Cargo.toml.in")).read().replace("@REPO@", vlib.REPO)
    ct = os.path.join(d, "Cargo.toml")
    if not os.path.exists(ct) or open(ct).read() != tmpl:
        open(ct, "w").write(tmpl)
    lock_dst = os.path.join(d, "Cargo.lock")
    if not os.path.exists(lock_dst):
        shutil.copyfile(os.path.join(vlib.REPO, "Cargo.lock"), lock_dst)
    env = {"CARGO_NET_OFFLINE": "true", "CARGO_TARGET_DIR": os.path.join(vlib.TARGET, "wasm-realcheck"),
           "SLV_REPO": vlib.REPO}
    rc, out, dt = vlib.run(["cargo", "check", "--offline"], cwd=d, timeout=2400, env=env)
    ctx.cov["realcheck_wall_s"] = round(dt, 2)
    if rc != 0:
        return ["searchlite-wasm/src/wasm.rs no longer type-checks against the real wasm-bindgen/js-sys/web-sys "
                "crates (harness-wasm/realcheck): " + out[-1500:]]
    ctx.notes.append("wasm.rs type-checks against the real wasm-bindgen/js-sys/web-sys/wasm-bindgen-futures/"
                     "serde-wasm-bindgen crates on the host target (cargo check, harness-wasm/realcheck)")
    return []


SPEC["gen"] = _realcheck


def run(ctx):
    ctx.harness_build = types.MethodType(_build, ctx)
    ctx.harness_run = types.MethodType(_run, ctx)
    return vlib.standard_check(ctx, SPEC)


MANIFEST_ENTRY = {
    "text": "Proof (Coq, closed): over an event-loop machine transcribed from wasm.rs (per-path snapshot queue with "
            "coalescing, one put per read-write transaction, flush = await all receivers), for EVERY schedule a conformant "
            "platform can produce (FIFO task queue, transactions in creation order) and EVERY moment: the durable store "
            "reopens and serves the contents of the empty index or of a commit that had started, never a manifest without "
            "its segment files (C27_reload_consistent); every commit whose promise resolved is contained in what is served "
            "(C27_resolved_present, C27_model_meets_spec); right after a completed transaction no request is in the "
            "success-but-not-durable window (C27_no_gap_after_completed_transaction). Refuted with witnesses: with "
            "arbitrary task/transaction order the manifest lands before its segment files (C27_any_order_refuted); in the "
            "code as found a commit promise could resolve before its last transaction was durable "
            "(C27_resolved_before_durable_refuted). Tie: the real wasm.rs runs on the host against simulated browser "
            "crates; every schedule is replayed in the model and every cut reopened with the real init.",
    "note": "Trusted: Coq kernel; the shim crates' simulated IndexedDB/executor semantics (no browser, no wasm32 build); "
            "the content abstraction of the model; the caller awaits commit before the next commit.",
    "technique": "Coq invariant proof over an event-loop/IndexedDB machine + host compilation of the real wasm source against "
                 "simulated browser crates with exhaustive/random schedule replay and reopen at every cut",
}
