import json
import os
import sys

import vlib


def gen(ctx):
    """Panic-site inventory: the sites found in /repo's working tree must all be in the committed baseline
    (each with a disposition).  A new or moved site is a broken obligation."""
    script = os.path.join(vlib.VERIF, "gen", "panic_sites.py")
    baseline = os.path.join(vlib.VERIF, "corpus", "C16", "panic_sites.json")
    report = os.path.join(ctx.work, "panic_sites_report.json")
    rc, out, _ = vlib.run([sys.executable, script, "--repo", vlib.REPO, "--baseline", baseline, "--report", report])
    problems = []
    rep = {}
    if os.path.exists(report):
        rep = json.load(open(report))
    ctx.cov["panic_site_inventory"] = {
        "sites": rep.get("sites"), "site_keys": rep.get("site_keys"), "by_disposition": rep.get("by_disposition"),
        "new_or_moved": rep.get("new_or_moved", [])[:20], "no_longer_present": rep.get("no_longer_present", [])[:20],
        "files": ["api/reader.rs", "query/wand.rs", "query/script.rs", "query/aggs/mod.rs", "index/highlight.rs"],
    }
    if rc not in (0, 1) or not rep:
        problems.append("panic-site inventory did not run: " + out[-500:])
    for e in rep.get("new_or_moved", []):
        problems.append(f"panic-site inventory: new or moved site without disposition: {e['file']} fn {e['fn']} "
                        f"[{e['kind']}] {e['snippet']}")
    return problems


SPEC = {
    "props_module": "C16",
    "model_vo": "theories/C16/Model.vo",
    "bin": "c16",
    "gen": gen,
    "n": {"quick": 30000, "thorough": 300000},
    "crash_is_violation": True,
    "engine_timeout": 1700,
    "rule": "engine c16: (1) the real cursor codec (PaginationCursor::decode, hex_decode through the cfg hook) on valid, "
            "mutated, non-ASCII, '+'-signed, truncated and random cursor strings, compared field by field / byte by byte "
            "with the Coq model (Ok / Err class + byte index / Panic); (2) searches with extreme limit / candidate_size and "
            "cursors carrying a large `returned`, the next cursor's `returned` compared with the model; (3) fuzzing: "
            "structure-aware random SearchRequest JSON (all query node types, filters, sort, aggs incl. pipelines, highlight, "
            "collapse, rescore, suggest, fuzzy, vector, cursors incl. structure-aware sort-cursor mutants) plus leaf-level "
            "(nasty strings, extreme numbers) and char-level mutations of the JSON text, against indexes of 0 / 6 / 40 docs "
            "(thorough: 0/1/7/30/120) with two segments and deletions; every search on a worker thread (8 MiB stack) under "
            "catch_unwind with a 5 s watchdog.  Requests that fail to deserialize are out of scope and only counted.  A case "
            "is non-trivial when the request deserialized and was executed; distinct = distinct case records.",
    "trusted_base": [
        "models C16/Model.v cover ONLY: the cursor codec, the sort-cursor checks after the JSON parse (serde_json as an "
        "arbitrary function), the limit / next-cursor arithmetic; everything else in the ~4.5k-line reader, the aggregation "
        "pipeline, WAND, scripts and highlighting is covered by the panic-site inventory (gen/panic_sites.py against "
        "corpus/C16/panic_sites.json) and by the fuzzing tie, which is a test, not a proof",
        "hook searchlite_core::api::reader::verif_cursor (exposes the private cursor codec) under cfg(searchlite_verif)",
        "the harness profile: opt-level 1, debug-assertions and overflow-checks ON (debug_assert!/overflow panics are visible); "
        "a release build without them is not exercised",
    ],
    "assumptions": [
        "stack exhaustion is an abort, not a panic: it is caught as an engine crash (violation with the request in the "
        "progress file); serde_json's depth limit of 128 bounds request nesting",
        "panics inside dependencies (regex, serde_json, fst) and allocation failure are only seen if the fuzzer triggers them",
        "the lexical inventory does not see integer division by zero, arithmetic overflow, RefCell borrows",
    ],
}


def run(ctx):
    return vlib.standard_check(ctx, SPEC)


MANIFEST_ENTRY = {
    "text": "PARTIAL. Proof (Coq) of totality (never Panic) for the enumerated kernels only: C16_cursor_decode_total, "
            "C16_hex_decode_total, C16_sort_cursor_total, C16_hex_encode_total, C16_next_page_total, C16_candidate_bounds "
            "(+ C16_prefix_code_panics: the pre-fix from_utf8(..).unwrap() panics on a 42-byte non-ASCII cursor). The rest of "
            "the statement ('any search request that deserializes ... never panics, aborts or hangs') is carried by a "
            "panic-site inventory (every unwrap/expect/panic!/assert!/index site of the anchored files is in a committed "
            "baseline with a disposition; a new site breaks the check) and by a fuzzing tie under catch_unwind + watchdog, "
            "which is a test.",
    "note": "proof for the enumerated kernels + inventory + fuzzing tie (a test). Requires fix commit 'reject non-ASCII "
            "cursor strings instead of panicking'. Profile with debug assertions and overflow checks.",
    "technique": "Coq totality proofs over panic-outcome models of the cursor codec and limit arithmetic + lexical panic-site "
                 "inventory + structure-aware fuzzing of IndexReader::search under catch_unwind and a watchdog",
}
