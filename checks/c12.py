import vlib

SPEC = {
    "props_module": "C12",
    "model_vo": "theories/C12/Model.vo",
    "bin": "c12",
    "n": {"quick": 40, "thorough": 500},
    "rule": "engine c12: n worlds = (random corpus of 6..66 documents: keyword tag (single) / cats (multi), i64 n (single) / ms "
            "(multi, duplicates allowed), f64 price, all values integer or half valued; ~12% deleted documents; ~12% updated "
            "documents whose first version has other content; match_all with an optional root filter evaluated by the harness; "
            "1..3 aggregation trees of depth <= 3 over terms(size, min_doc_count, missing) / range(overlapping, open ended, "
            "missing) / histogram(interval, offset, min_doc_count, extended_bounds, missing) / filter(And/Or/Not) / stats / "
            "extended_stats / value_count / cardinality / percentiles / percentile_ranks). The same live corpus is committed as "
            "one segment, as two random layouts of 2..6 segments, as a layout with the updates (old copies tombstoned), and one "
            "document per segment for small corpora; every layout ends with a delete-only commit. Each (world, layout) is a case: "
            "the real response is translated to exact integers (halves; avg*count, variance*count^2 rounded to the integer they "
            "must be; percentiles at 1e-6) and compared in Coq with the merge model run over the layout's segments and with the "
            "one-pass spec over all matched live documents. Non-trivial: >= 2 segments and a non-empty matched set; distinct = "
            "distinct (world, layout)",
    "trusted_base": [
        "model C12/Model.v: per-segment collector state is modelled denotationally at finish() time (group-by over the segment's "
        "matched documents), not as the incremental collect() calls; bucket lists of intermediates are key-sorted (the code's hash / "
        "arrival order is unobservable since every consumer sorts by a total order); StatsState.m2 is represented by the sum of "
        "squares (equal in exact arithmetic); cardinality keeps values instead of 64-bit hashes (no collisions assumed); "
        "percentiles in exact mode (<= 256 values)",
        "the engine's translation of request / response JSON into model terms (harness/src/bin/c12.rs), incl. the harness-side "
        "checks std_deviation^2 = variance and integrality of scaled values",
        "which documents are matched and live in which segment is computed by the harness from the commit layout "
        "(C13 ties the collector input to the matched live set)",
    ],
    "assumptions": [
        "integer / half valued data: f64 sums, min, max and bucket keys are exact; avg, variance and percentiles are compared "
        "after rounding to the rational they must equal (tolerance 1e-6 absolute + 1e-9 relative for percentiles / ranks)",
        "outside the model (statement kinds not covered): rare_terms (repaired by the same fix, not modelled), date_range, "
        "date_histogram, composite, top_hits, terms shard_size (explicit approximation knob), histogram hard_bounds",
    ],
}


def run(ctx):
    return vlib.standard_check(ctx, SPEC)


MANIFEST_ENTRY = {
    "text": "Proof (Coq, aggregation trees of unbounded depth by induction on the tree, all document lists): merging the "
            "per-segment summaries of two document lists is the summary of their concatenation (C12_merge_is_union), hence for "
            "every non-empty segment layout the finalised merge equals the independent one-pass computation over all documents "
            "with thresholds (min_doc_count) and limits (size) applied to the merged counts (C12_exact), and two layouts holding "
            "the same documents as a multiset give the same response (C12_segmentation_independent); kinds: terms "
            "(size/min_doc_count/missing), range, histogram (offset/min_doc_count/extended bounds/missing), filter, stats, "
            "extended_stats, value_count, cardinality, percentiles and percentile_ranks in exact mode, closed under "
            "sub-aggregations. Carried only by the repair + tie, not by a theorem: rare_terms. Not covered: date_range, "
            "date_histogram (repaired alike), composite, top_hits.",
    "note": "Trusted: Coq kernel; the hand-written model (denotational per-segment summaries, key-sorted intermediates, sum of "
            "squares for m2, values for hashes); the engine's JSON <-> term translation; integer/half valued test data. Requires "
            "repo commit `fix: apply bucket thresholds and limits of terms / rare_terms / histogram / date_histogram to the "
            "merged counts`.",
    "technique": "Coq proof (merge homomorphism, finalize = one-pass spec, permutation invariance) over a Gallina model of "
                 "collectors / merge / finalize + exact differential check of real responses under several commit layouts",
}
