import vlib

SPEC = {
    "props_module": "C19",
    "model_vo": "theories/C19/Model.vo",
    "bin": "c19",
    "n": {"quick": 120, "thorough": 600},
    "rule": "engine c19: world 0 is a fixed 4-document scenario (one rejected and one down-weighted hit in a window of 2); "
            "n-1 random worlds (1-3 segments, tombstones); per world 6 (quick) / 10 (thorough) requests: random initial "
            "query / filter / execution, default or explicit score plan and two plans without _score, limit 1..8 or "
            "covering all matches, window_size 0..min(limit,matches)+5, all five score modes, rescore query = term or "
            "constant_score, half of them wrapped in function_score with min_score at / just above an observed score or "
            "above all. The ranked candidates are derived from the request without rescore and a big limit (first limit+1 "
            "globally on the sort path, first limit+1 of every segment on the score fast path); the outcome of the rescore "
            "query per window hit is recomputed by running it as a main query (with and without min_score); combined "
            "scores are recomputed with the documented formula in f32 and compared bit for bit with the response. "
            "Non-trivial = some window hit rescored or rejected and hits remain after the window.",
    "trusted_base": [
        "C19/Model.v: rescore_hits over (id, integer key, score bits); the key encoding of SortKey order (descending f32 "
        "total order, then (segment, doc) rank taken from a match_all request) is the engine's",
        "the rescore query's own score is the implementation's (main-query path, execution bm25); only queries with at "
        "most one scoring term are used, so both paths add the same floats in the same order (no tolerance needed)",
        "ranked candidate list reconstruction relies on per-segment top-k being exact (C10)",
    ],
    "assumptions": [
        "hits that do not match the rescore query keep their original score (README: only the window is rescored; "
        "non-matching hits are not combined) — modelled as outcome Keep",
    ],
}


def run(ctx):
    return vlib.standard_check(ctx, SPEC)


MANIFEST_ENTRY = {
    "text": "Proof (Coq): for every candidate list, window and per-hit outcome the repaired rescore_hits returns the "
            "surviving window hits sorted (stably) by their new keys followed by the hits after the window, untouched "
            "(C19_tail_untouched, C19_window_sorted); every surviving window hit is the original hit (no match) or carries "
            "the combined score, rejected hits are gone (C19_window_scores); the code as found is refuted by a 4-hit "
            "witness (C19_tail_untouched_unfixed_refuted) and was repaired in /repo. The combination formula in f32 and "
            "the min_score rejection are carried by the tie (independent recomputation, bit-exact).",
    "note": "Trusted: Coq kernel; the engine's key encoding and candidate reconstruction; the implementation's score of "
            "the rescore query.",
    "technique": "Coq proof over a Gallina model of rescore_hits + differential check against the same request without "
                 "rescore",
}
