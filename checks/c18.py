import vlib

SPEC = {
    "props_module": "C18",
    "model_vo": "theories/C18/Model.vo",
    "bin": "c18",
    "n": {"quick": 80, "thorough": 500},
    "rule": "engine c18: world 0 is the fixed two-segment scenario of known finding 1; n-1 random worlds (1-4 segments, "
            "tombstones, random group sizes over 4 tag values, documents without a tag); per world 6 (quick) / 10 (thorough) "
            "collapsed requests: random query / filter / execution / main sort plan (0-3 keys over _score, keyword and "
            "numeric fields), collapse on tag (5/6) or on the multi-valued tags (1/6: error expected when a candidate has "
            "several values), inner_hits absent (1/3) or with size none/0..3, from none/0..2 and a sort equal to the main "
            "one, empty, or random; limit 1..6; candidate_size absent, small, or covering all matches. Independent "
            "recomputation: main ranking from the uncollapsed big request, inner ranking from a big request under the "
            "inner plan (with the score component dropped when the main plan is match-only), group values from the "
            "documents, candidates = first top_k overall (sort path) / of every segment (score fast path). "
            "Non-trivial = no error, at least two groups returned and more matches than groups.",
    "trusted_base": [
        "C18/Model.v: collapse over (id, main rank, group value, inner rank); ranks come from the implementation's own "
        "uncollapsed requests (sorting is C10's concern)",
        "candidate reconstruction relies on exact per-segment top-k (C10) and on commit batch = segment",
    ],
    "assumptions": [
        "the statement's 'best-ranked matching document' is read over all matching documents; it holds when the "
        "candidates cover (C18_collapse_covering) and fails otherwise (known finding 1, class = not covering)",
        "'windowed by from and size' is read over the group's candidates (the spec S only demands: other members of "
        "the same group, no repetition, inner order, at most size)",
    ],
}


def run(ctx):
    return vlib.standard_check(ctx, SPEC)


MANIFEST_ENTRY = {
    "text": "Proof (Coq), over the ranked candidate list: at most one hit per value (C18_collapse_one_per_value), each "
            "returned hit is the best-ranked candidate of its group (C18_collapse_best_of_candidates), groups appear in "
            "the order of their best hits (C18_collapse_order), inner hits are the other candidates of the group under "
            "the inner order, windowed by from/size (C18_collapse_inner, C18_window); over all matching documents when "
            "the candidates cover each touched group's best document (C18_collapse_covering, C18_model_meets_spec). Without covering the "
            "statement fails (C18_best_of_all_refuted; known finding 1, reported as KNOWN-FINDING). The tie recomputes "
            "every response from uncollapsed requests.",
    "note": "Trusted: Coq kernel; ranks taken from the implementation's uncollapsed requests; the engine's candidate "
            "reconstruction. The executable spec is met by the model on covering inputs (C18_model_meets_spec).",
    "technique": "Coq proof over a Gallina model of collapse_hits + differential check against uncollapsed big requests",
}
