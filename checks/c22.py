import vlib

SPEC = {
    "props_module": "C22",
    "model_vo": "theories/C22/Model.vo",
    "bin": "c22",
    "n": {"quick": 800, "thorough": 8000},
    "rule": "engine c22: random documents (text field over default / whitespace+lowercase / unicode / stopwords+stemmer, "
            "multi-valued keyword field, a word family sharing a prefix) indexed twice - 1-6 random commits and one commit, no "
            "deletions; 40 completion requests per corpus (text or keyword field, prefixes of 0-3 characters or whole / "
            "upper-cased / two-word inputs, size 0-60, fuzzy options with max_edits 0-3, prefix_length 0-2, max_expansions "
            "0-300, min_length 1-4 in half of them); both readers answer through IndexReader::search; the case carries, per "
            "layout, the candidate dictionary entries of every segment with their document frequencies (recomputed from the "
            "documents with the real index analyzer and the real segment layout) and the observed options. Non-trivial = some "
            "option returned and both layouts below the scan cap",
    "trusted_base": [
        "model C22/Model.v: HashMap accumulation modelled as an association list in first-insertion order; scores are "
        "exact rationals scaled by 6 (the code sums f32 products; the engine reports round(6*score))",
        "oracles supplied by the engine: search/index analyzers (real code), the match predicate (starts_with; shared "
        "prefix + length filter + Levenshtein re-implemented in the engine), term order = byte-wise string order",
        "document frequencies are recomputed by the engine from the source documents (no deletions in the corpus)",
    ],
    "assumptions": [
        "corpora without deletions or upserts (property quantifier)",
        "layout independence is claimed below the scan cap, which counts (segment, term) visits, not distinct terms "
        "(C22_above_cap_layout_dependent shows the dependence above it)",
        "f32 rounding of distance-2 weights (1/3) is not modelled; two candidates with equal exact score could be ordered by "
        "an ulp instead of by text - not observed in the explored cases",
    ],
}


def run(ctx):
    return vlib.standard_check(ctx, SPEC)


MANIFEST_ENTRY = {
    "text": "Proof (Coq): for every segment layout and request the modelled completion_suggest returns at most size options, "
            "sorted by score descending then text, with distinct texts (C22_sorted_sized); each option is an indexed term of "
            "the field satisfying the request's match predicate with a positive doc_freq that never exceeds and, below the scan "
            "cap, equals the number of indexed documents containing it, with the score of its distance (C22_sound); two layouts "
            "of the same documents give identical suggestions below the cap (C22_layout_independent); above the cap the result "
            "can depend on the layout (C22_above_cap_layout_dependent, witness). Tie: the same documents under two real layouts, "
            "both answers compared with the model and the executable statement inside Coq, and with each other.",
    "note": "Trusted: Coq kernel; hand-written model; analyzers and the match predicate as oracles; exact-rational scores "
            "versus f32 sums (rounded to sixths by the engine). The cap counts visits, not terms.",
    "technique": "Coq proof over a Gallina model of the dictionary walk/accumulate/sort + differential check against IndexReader::search on two layouts",
}
