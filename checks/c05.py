import vlib

SPEC = {
    "props_module": "C05",
    "model_vo": "theories/C05/Model.vo",
    "bin": "c05",
    # the engine enumerates schedules; --n is not used
    "n": {"quick": 0, "thorough": 0},
    "engine_timeout": 1500,
    "rule": "engine c05: 2-4 real writer threads (each: Index::writer(), then 1-3 of add/delete/commit/rollback through its "
            "own IndexWriter on FsStorage; the handle is dropped at a schedulable instant) plus, in every second scenario, a "
            "thread calling Index::compact, on an index with 0-2 initial segments; deterministic scheduler slv::sched over the "
            "cfg(searchlite_verif) schedule points: workers park before every lock request, after every acquisition and after "
            "every stage of the body (commit: wal sync, manifest read, live reload, segment write, manifest store, marker, "
            "publish, truncate; compact: reader, publish, cleanup); a worker waiting for the lock is enabled only while the real "
            "lock is free and the controller never enforces exclusion itself. Per scenario: depth-first enumeration with "
            "preemption bound 2 (quick, capped at 90 schedules) / 3 (thorough, capped at 400), then 50 / 150 random schedules. "
            "One case = one schedule: scripts, recorded log (Acq / Sh label / Rel / Loc per thread), final contents, contents "
            "after Index::open, each call's return value. Coq decides `disciplined` on the log, runs the micro-step machine "
            "`mrun` on it (every section must consist of exactly its call's micro-steps) and compares outcome and results; "
            "the specification tries the serial execution in acquisition order and, up to 7 calls, all merges of the scripts. "
            "A case is non-trivial when the schedule switches threads at least twice; distinct = distinct (scenario, schedule).",
    "trusted_base": [
        "C05/Model.v `micro` is a hand transcription of the bodies of IndexWriter::{new,add_document,delete_documents,"
        "commit,rollback} and Index::compact at the granularity of the instrumented points; its composition is proved equal "
        "to Core.Model.step (body_complete); Core/Model.v is the write-path transcription of C04",
        "the scheduler serialises threads at the instrumented points only: data races between points, weak-memory effects "
        "and the internals of parking_lot::Mutex/RwLock are out of scope; Index::verif_writer_locked reports the real lock",
        "faults (storage errors, crashes) are out of scope here (C01-C03, C23)",
    ],
    "assumptions": [
        "serial execution = Core.Model.step in some order that keeps each thread's program order; results compared are "
        "the final reader contents, the contents after reopening, and add_document's return values (other calls: Ok)",
        "a handle created while another handle has queued operations recovers them (C04 known class 1, stale queue): the "
        "concrete machine Core.Model.step is the oracle for serial executions, so such runs are compared, not excluded",
    ],
}


def run(ctx):
    return vlib.standard_check(ctx, SPEC)


MANIFEST_ENTRY = {
    "text": "Proof (Coq, closed under the global context): C05_serializable - for any number of threads, any scripts of "
            "lock-taking calls and any event log that satisfies the explicit lock discipline `disciplined` (every shared event "
            "of a thread lies between its own acquire and matching release, sections never overlap, lock-free Drop events "
            "anywhere) and is executable by the micro-step machine (each section = exactly the micro-steps of its call; a "
            "commit section contains manifest snapshot read, live-doc reload, segment write, manifest store, marker, publish, "
            "truncate), the final shared state equals the serial execution of whole calls (Core.Model.step) in lock-acquisition "
            "order, every call's result equals its serial result, and the order keeps each thread's program order ('the outcome "
            "equals some serial execution; no committed operation lost or applied with a different result; every successful "
            "call reflected'). C05_contents_follow_spec composes this with the C04 refinement theorem (contents = map "
            "specification over the acquisition order, outside the known stale class). C05_undisciplined_refuted: two "
            "overlapping commit sections are executable but lose a document and match no serial order (the discipline is "
            "necessary). That the real code obeys the discipline, that its sections are the model's programs, and 'the index "
            "stays openable' are carried by the tie (recorded logs decided by `disciplined`, replayed by `mrun`; reopen "
            "observed).",
    "note": "Trusted: Coq kernel; hand-written micro-step model; scheduler hook (threads serialised at instrumented points; "
            "weak memory and races between points out of scope); parking_lot locks.",
    "technique": "Coq reduction proof (invariant over disciplined logs, body composition lemma) + systematic schedule "
                 "exploration (preemption-bounded DFS + random) of real threads replayed in Coq",
}
