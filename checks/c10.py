import vlib

SPEC = {
    "props_module": "C10",
    "model_vo": "theories/C10/Model.vo",
    "bin": "c10",
    "n": {"quick": 24, "thorough": 100},
    "rule": "engine c10: n worlds = random corpora over two text fields (7-word vocabulary: many tf / length ties), fast "
            "keyword / i64 / f64 fields single- and multi-valued with missing values (-0.0, 1e9, multiples of 0.1), 1-4 "
            "segments (a third of the batches repeats the previous one: exact score ties across segments), optional "
            "tombstones, filesystem and in-memory storage; per world 5 (quick) / 8 (thorough) configurations = a random "
            "scored query tree (term, query_string, multi_match most_fields / best_fields with field boosts, bool "
            "must/should, dis_max with tie_breaker, constant_score, function_score with weight / field_value_factor "
            "(none, reciprocal) functions, filters on functions, all score_modes and boost_modes, max_boost; boosts from "
            "{0.5,1,1.2,1.5,2}; every term key at most once per query), an optional root filter, a sort plan of 0-3 keys "
            "over _score/tag/tags/n/m/x/y in both directions, execution bm25/wand (bmw only off the score fast path). "
            "The matching set comes from one exhaustive request; sort values, tf, df, field lengths, avgdl and live docs "
            "are read from the reader's segments; idf is computed by the engine in f64 and re-checked in Coq "
            "(idf_plausible). One case = one real IndexReader::search answer (limit = all, and 1-2 small limits): ids "
            "and f32 score bits. Coq checks: hits strictly ordered by the property's order under their own f32 scores "
            "(exact), distinct, matching, min(limit, matches) many, no left-out document before the last hit (beyond "
            "score tolerance), every score within 1e-4 relative (+1e-6) of the exact rational BM25 / score-tree value; on "
            "plans without _score the id list must equal the model's. Non-trivial = at least two hits.",
    "trusted_base": [
        "C10/Model.v key layer: transcription of SortValue / SortKeyPart::cmp / SortKey::cmp / ResolvedSortField::value / "
        "pick_numeric (f32 and f64 by raw bits through the total_cmp integer trick; Iterator::min_by / max_by as "
        "reduce with first-minimum / last-maximum)",
        "C10/Model.v score layer: bm25 / score_tf / term weights / score tree over exact rationals; ln in idf is an oracle "
        "supplied per (term key, segment) by the engine (f64) and bounded in Coq by 1 - 1/x <= ln x <= x - 1 and "
        "x <= 1 -> idf = 1; k1 and b are the f32 values of the index options",
        "the engine's rendering of a query tree to request JSON and to the Gallina qnode (harness/src/sortworld.rs), its "
        "reading of the segments through the public IndexReader::segments (postings, fast fields, avg_field_length, "
        "live_docs) and its own evaluation of the four pool filters",
        "the matching set is taken from the implementation's own exhaustive (execution bm25, limit > docs) answer: "
        "matching itself is C07/C08, pruning C09",
    ],
    "assumptions": [
        "distinct matching documents have distinct (segment ordinal, document number) — holds by construction of the "
        "segments; asserted per case (no id twice)",
        "f64 sort values are not NaN (a JSON document cannot carry one); NaN / infinite scores are not generated",
        "every term key is scored under one leaf only (a repeated key trips the debug assertion recorded under C16 and "
        "merges weights into the first leaf in release builds)",
        "float rounding: scores are compared at relative tolerance 1e-4 (+1e-6), order is compared exactly under the "
        "implementation's own f32 scores; a left-out document is only required to be after the last hit when its "
        "exact score differs from the last hit's by more than the tolerance",
    ],
}


def run(ctx):
    return vlib.standard_check(ctx, SPEC)


MANIFEST_ENTRY = {
    "text": "Proof (Coq): SortKey::cmp is a strict total order on the keys built from one sort plan (C10_key_total, "
            "C10_keys_of_one_plan; off that domain the type-mismatch Equal gives cycles: C10_type_mismatch_breaks_order); "
            "hits = the candidates sorted by key and cut to the limit, uniquely determined, and the per-segment top_k / "
            "bounded heap of the code return the same (C10_order, C10_truncation_neutral); the executable order "
            "specification used by the tie is met by the model and coincides with the key order (C10_order_meets_spec, "
            "C10_spec_order_is_key_order); missing values are last in both directions (C10_missing_last); the key holds "
            "the minimum (ascending) / maximum (descending) of a multi-valued field, Missing iff no value "
            "(C10_multi_value_rule); reported score = property score outside known class 1, refuted inside "
            "(C10_score_outside_match_only, C10_score_match_only_refuted). 'Each hit's score equals BM25 combined through "
            "boosts and scoring functions' is carried by the tie: exact rational recomputation from exported tf, df, dl, "
            "avgdl, live docs, k1, b against the f32 score at 1e-4.",
    "note": "Trusted: Coq kernel; transcription of sort.rs and of the score arithmetic; the engine's query rendering and "
            "segment reading; idf logarithm oracle (bounded in Coq). Known class 1: match-only executions report 0.0.",
    "technique": "Coq proof over a Gallina model of the sort key order and ranking, exact-rational BM25 / score-tree "
                 "model tied by differential runs of the real IndexReader::search",
}
