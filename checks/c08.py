import vlib

SPEC = {
    "props_module": "C08",
    "model_vo": "theories/C08/Model.vo",
    "bin": "c08",
    "n": {"quick": 10, "thorough": 60},
    "crash_is_violation": True,
    "rule": "engine c08: world 0 is the README's comment/reply hierarchy with several parent objects holding child "
            "arrays; every other world is a random schema (keyword/i64/f64 fields, nested objects to three levels, "
            "names reused across levels), 8..21 (thorough 8..37) random schema-valid documents committed in one to "
            "three batches, and 70 (thorough 160) random And/Or/Not/Nested filter trees; observation = ascending ids "
            "of IndexReader::search(match_all, filter); a case is non-trivial when the filter selects some but not "
            "all documents; distinct = distinct (world, filter, hits)",
    "trusted_base": [
        "model C08/Model.v: flatten describes the per-document content of the fast-field columns (global object "
        "numbering per nested path, parent indices, per-object values) rather than replaying the HashMap updates of "
        "collect_nested; the offset encoding of the column file is taken as a faithful round trip; both are covered "
        "only by the tie",
        "strings are interned as (exact id, id of str::to_lowercase) by the engine; case_insensitive_equals' ASCII "
        "fast path is identified with to_lowercase equality (they coincide on ASCII strings)",
        "f64 values and bounds enter Coq as order-preserving ranks computed by the engine; JSON numbers carry "
        "serde_json's as_i64()/as_f64()",
    ],
    "assumptions": [
        "filters name only fast fields of the matching type and nested paths of the schema (well_typed); other "
        "filters are compared with the model only",
        "field names contain no '.', no NaN bounds",
    ],
}


def run(ctx):
    return vlib.standard_check(ctx, SPEC)


MANIFEST_ENTRY = {
    "text": "Proof (Coq): for every schema, every document and every well-typed filter tree of any depth, the "
            "transcription of query/filters.rs evaluated on the modelled fast-field columns of the document equals the "
            "documented semantics evaluated on the JSON tree (C08_filter_exact): keyword equality/membership compare "
            "lowercase forms, ranges are inclusive on fields of the matching type, any value of a multi-valued field "
            "can satisfy a clause, Nested p f holds iff one object under the bound object's key p satisfies f, and "
            "sibling Nested clauses on one path under an And are satisfied jointly by one object (C08_sem_nested, "
            "C08_sem_and, C08_sem_not, C08_sem_or unfold the specification; C08_fuel_irrelevant shows the evaluation "
            "fuel is immaterial). The column model and the transcription are tied to the code by indexing random "
            "documents and comparing search(match_all, filter) hit ids with both the model and the specification.",
    "note": "Trusted: Coq kernel; the hand-written model (per-document column content after the fix that numbers nested "
            "objects across parents and skips null array entries; column file encoding abstracted); the Rust engine "
            "(generators, string/float interning, Rust's to_lowercase as the lowercase oracle); filters outside "
            "well_typed (unknown or wrongly typed fields, dotted top-level names) are only compared with the model.",
    "technique": "Coq proof (model of index-time flattening + filter evaluator = tree semantics) + differential check of "
                 "search hit ids against model and specification",
}
