"""C25 — CLI, HTTP and FFI agree with the Rust API.

Besides the standard flow this check builds the `searchlite-cli` binary from /repo's current
working tree (cargo build -p searchlite-cli, own target directory: $SLV_CLI_TARGET or
<harness target>-cli) and hands its path to the engine."""
import os

import vlib

CLI_TARGET = os.environ.get("SLV_CLI_TARGET", vlib.TARGET.rstrip("/") + "-cli")


def build_cli(ctx):
    env = {"CARGO_NET_OFFLINE": "true", "CARGO_TARGET_DIR": CLI_TARGET}
    rc, out, dt = vlib.run(["cargo", "build", "--offline", "-p", "searchlite-cli"], cwd=vlib.REPO, timeout=3000, env=env)
    exe = os.path.join(CLI_TARGET, "debug", "searchlite-cli")
    if rc != 0 or not os.path.exists(exe):
        return None, out
    return exe, out


SPEC = {
    "props_module": "C25",
    "model_vo": "theories/C25/Model.vo",
    "bin": "c25",
    "n": {"quick": 20, "thorough": 80},
    "crash_is_violation": True,
    "engine_timeout": 2400,
    "extra_args": lambda ctx: ["--cli", ctx.c25_cli],
    "rule": "engine c25 (n = scripts through the CLI; 4n HTTP scripts, 4n FFI scripts, 4n CLI flag sets, 6n FFI argument "
            "sets): every script runs through a front end on one fresh index (searchlite-cli binary spawned per command: init, "
            "add/update with JSONL files holding valid, blank, unparsable, non-object and invalid lines, delete with id files "
            "holding blank / control-character lines, commit, compact, search --request FILE; a live HTTP server; the extern C "
            "functions add_json / commit / search) and, translated command by command into API calls by a Rust mirror of "
            "cli_calls / http_calls / ffi_calls, through the library on a second fresh index with the same options; at every "
            "search point three request files (match_all over stored fields + two of: query string, sort on a fast field, term "
            "+ terms aggregation, bm25 + highlight, a sort the core rejects) are answered by both sides and the JSON values "
            "compared (scores included); request construction: random flag sets of `searchlite-cli search` (query, limit incl. "
            "0, execution spellings, bmw block size, fields lists with spaces and empty pieces, sort lists incl. invalid "
            "orders, cursor, aggs, highlight) and random searchlite_search arguments (string / QueryNode JSON / broken JSON, "
            "limit incl. 0, garbage cursor, aggs) against a fixed two-segment corpus: the front end's output equals the "
            "library's for the independently written mirror request, and Coq checks the mirror against the model; "
            "non-trivial = a script with a failing command after accepted documents / a request using sort or fields or a "
            "QueryNode",
    "trusted_base": [
        "models C25/Model.v: hand transcription of cmd_add, cmd_delete, cmd_commit, cmd_compact, cmd_search, "
        "build_search_request_from_cli, parse_sort, parse_execution (CLI, feature vectors off), searchlite_add_json, "
        "searchlite_commit, searchlite_search's request literal (FFI), and C23's HTTP handlers, over the queue machine of C23 "
        "(contents = id -> version; the engine compares the full JSON)",
        "the engine's Rust mirrors of the translations and of the request builders (written independently of the Coq model; "
        "Coq compares them with the model on every case) and its JSON comparison (`same`)",
        "SearchRequest fields no front end can set from flags/arguments are constants in both front ends and are covered "
        "only by the engine's comparison of real results, not by the Coq record",
        "strings in flags are ASCII; Rust's trim / to_ascii_lowercase are modelled for ASCII only",
    ],
    "assumptions": [
        "one front end at a time on an index; CLI built with default features (no vectors), library with vectors: text "
        "search results do not depend on the feature",
        "FFI has no delete / compact entry points: FFI scripts contain add_json, commit, search only",
    ],
}


def run(ctx):
    exe, out = build_cli(ctx)
    if exe is None:
        ctx.add_violation("cli_build.json", {
            "what": "searchlite-cli no longer builds from /repo's working tree", "cargo_output_tail": out[-3000:]},
            no_input=True)
        ctx.cov.update({"evaluations": 0, "distinct_nontrivial": 0, "rule": SPEC["rule"], "samples": [],
                        "obligations": 0, "discharged": 0})
        return ctx.finish()
    ctx.c25_cli = exe
    return vlib.standard_check(ctx, SPEC)


MANIFEST_ENTRY = {
    "text": "Proof (Coq): the CLI commands, the HTTP handlers and the FFI entry points, transcribed as machines over the "
            "queue model (committed contents + shared log), leave for every script the same state and show the same contents "
            "at every search as the API calls they are translated to (C25_cli_refines_api, C25_http_refines_api, "
            "C25_ffi_refines_api: unbounded scripts, any start state); the SearchRequest built from CLI flags and from FFI "
            "arguments is characterised field by field (C25_cli_request_eq / _rejects / _defaults, C25_ffi_request_eq, "
            "C25_parse_execution_cases). Tie: the same generated corpora and request files go through the spawned CLI binary, "
            "a live HTTP server, the extern C functions, and the translated API calls through the library; index contents and "
            "every search result are compared as JSON, outcomes and mirror requests are compared with the model in Coq.",
    "note": "Trusted: Coq kernel; hand-written front-end models; the engine's mirrors and JSON comparison. The Coq contents "
            "are id -> version; equality of full documents, scores, aggregations and highlights is established only by the "
            "engine's comparison on the generated inputs (differential evidence, not proof).",
    "technique": "Coq refinement proofs of front-end machines to API scripts over the C23 queue model + differential execution "
                 "of CLI binary / live HTTP server / C FFI against the library",
}
