import vlib

SPEC = {
    "props_module": "C30",
    "model_vo": "theories/C30/Model.vo",
    "bin": "c30",
    "n": {"quick": 30, "thorough": 200},
    "rule": "engine c30: n worlds (1-4 segments, tombstones, both storages; documents with missing and multi-valued "
            "fields); per world 4 (quick) / 6 (thorough) composite aggregations with 1-3 sources drawn from terms over "
            "tag / tags (multi-valued) and histogram over x (f64), y (f64, multi-valued, with -0.0, 0.0, negative values and multiples of 0.1) and sometimes n (i64: no buckets) "
            "with intervals 0.1, 0.3, 0.5, 1, 2, 3, optional stats(n) / value_count(m) sub-aggregations, random query and "
            "filter. The unpaged aggregation (size 10000) is the oracle; each aggregation is walked with 2 (quick) / 3 "
            "(thorough) page sizes from 1..5 by sending after_key back as after — half of the walks through the JSON "
            "text of the key, as HTTP/CLI clients do — and every bucket (key, doc_count, digest of sub-aggregations) is "
            "compared. Two probe requests per aggregation use an arbitrary key as after. One case = one walk; "
            "non-trivial = at least two pages.",
    "trusted_base": [
        "C30/Model.v: bucket keys interned to their rank in the unpaged response; that this rank is CompositeKey::cmp is "
        "checked per case (strictly increasing under the modelled key_cmp; probes with arbitrary after keys)",
        "bucket collection and merge across segments are not modelled (C12): the same merged bucket list is assumed on "
        "every page of one walk, which the comparison of counts and sub-aggregation digests checks",
        "serde_json's text round trip of f64 keys (exercised by the walks that pass after_key through text)",
    ],
    "assumptions": [
        "histogram keys are finite floats (C30_nonfinite_key_lost shows inf/NaN keys print as null and are lost); cases "
        "whose unpaged keys do not parse would be skipped and counted (none observed)",
        "source names are distinct (two sources with one name collide in the JSON key object)",
        "size > 0 (size = 0 is degenerate: C30/Proofs.v size_zero_degenerate)",
    ],
}


def run(ctx):
    return vlib.standard_check(ctx, SPEC)


MANIFEST_ENTRY = {
    "text": "Proof (Coq): for every set of distinct bucket keys and page size > 0, sending each after_key back as after "
            "returns every bucket exactly once in key order, with after_key absent exactly on the last page and all "
            "earlier pages full (C30_paging_complete), and the result is the unpaged list (C30_unpaged, C30_sort_spec); "
            "the key survives its JSON form for terms and finite histogram parts with distinct source names "
            "(C30_composite_key_roundtrip; C30_nonfinite_key_lost marks the limit). 'Same counts' and the agreement of the "
            "modelled key order with CompositeKey::cmp are carried by the tie: real composite walks against the unpaged "
            "aggregation, counts and sub-aggregations compared, arbitrary after keys probed.",
    "note": "Trusted: Coq kernel; key order abstraction (checked per case); serde_json; the Rust engine. Hypotheses: "
            "distinct keys, finite histogram keys, distinct source names, size > 0.",
    "technique": "Coq proof over a Gallina model of finalize_composite and the key JSON codec + differential walks of "
                 "real composite aggregations",
}
